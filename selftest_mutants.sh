#!/bin/bash
# Sensitivity self-test: every patch in /verif/mutants (and every seeded/<id>/patch.diff)
# must be caught by the quick check of the property it breaks, and the replay file must
# reproduce the violation. Scratch copies live under $TMPDIR, outside /repo and /verif, and
# are removed afterwards.
#
#   selftest_mutants.sh [--baseline] [--tier quick|thorough] [pattern]
set -u
export GOFLAGS=-mod=mod GOPROXY=off GOSUMDB=off GOTOOLCHAIN=local
HERE="$(cd "$(dirname "${BASH_SOURCE[0]}")" && pwd)"
BASELINE=0; TIER=quick; PAT=""
while [ $# -gt 0 ]; do
  case "$1" in
    --baseline) BASELINE=1 ;;
    --tier) shift; TIER="$1" ;;
    *) PAT="$1" ;;
  esac
  shift
done
ROOT="$(mktemp -d "${TMPDIR:-/tmp}/goldsim-mutants.XXXXXX")"
trap 'git -C /repo worktree remove --force "$ROOT/repo" >/dev/null 2>&1; rm -rf "$ROOT"; git -C /repo worktree prune' EXIT
fail=0; n=0
list=$(ls "$HERE"/mutants/*.patch "$HERE"/seeded/*/patch.diff 2>/dev/null)
for p in $list; do
  case "$p" in
    */seeded/*) name="seeded/$(basename "$(dirname "$p")")"; prop=$(python3 -c "import json,sys;print(json.load(open(sys.argv[1]))['property'])" "$(dirname "$p")/meta.json") ;;
    *) name="$(basename "$p" .patch)"; prop="${name%%-*}" ;;
  esac
  if [ -n "$PAT" ] && ! echo "$name" | grep -q -- "$PAT"; then continue; fi
  n=$((n+1))
  git -C /repo worktree remove --force "$ROOT/repo" >/dev/null 2>&1
  git -C /repo worktree add --detach "$ROOT/repo" HEAD -q || { echo "MUTANT $name: cannot create worktree"; fail=1; continue; }
  if ! git -C "$ROOT/repo" apply "$p" 2>"$ROOT/apply.err"; then echo "MUTANT $name: patch does not apply: $(head -1 "$ROOT/apply.err")"; fail=1; continue; fi
  if ! (cd "$ROOT/repo" && go build ./... && go build -tags verif ./...) >"$ROOT/build.log" 2>&1; then echo "MUTANT $name: does not compile"; fail=1; continue; fi
  if [ $BASELINE = 1 ]; then
    if ! (cd "$ROOT/repo" && go test -vet=off -count=1 ./... ) >"$ROOT/test.log" 2>&1; then echo "MUTANT $name: killed by the baseline suite already (proves nothing)"; fail=1; continue; fi
  fi
  rm -rf "$ROOT/replays"; mkdir -p "$ROOT/replays"
  t0=$(date +%s)
  VERIF_REPO="$ROOT/repo" VERIF_DRIVE_ARGS="-first -no-evidence -replay-dir $ROOT/replays ${MUTANT_DRIVE_ARGS:-}" "$HERE/check" "$prop" "$TIER" >"$ROOT/out.log" 2>&1
  code=$?
  t1=$(date +%s)
  rp=$(grep -m1 '^VIOLATION property=' "$ROOT/out.log" | sed 's/.*replay=//')
  if [ $code -ne 1 ] || [ -z "$rp" ]; then
    echo "MUTANT $name ($prop): NOT CAUGHT (exit $code, $((t1-t0))s)"; tail -3 "$ROOT/out.log" | sed 's/^/    /'; fail=1; continue
  fi
  cls=$(grep -m1 '^violation class=' "$ROOT/out.log" | sed 's/^violation class=\([^:]*\):.*/\1/')
  VERIF_REPO="$ROOT/repo" "$HERE/check" replay "$rp" >"$ROOT/replay.log" 2>&1; rc=$?
  "$HERE/check" replay "$rp" >"$ROOT/replay0.log" 2>&1; rc0=$?
  if [ $rc -ne 1 ]; then echo "MUTANT $name ($prop): caught (class $cls) but replay did not reproduce (exit $rc)"; tail -3 "$ROOT/replay.log" | sed 's/^/    /'; fail=1; continue; fi
  if [ $rc0 -ne 0 ]; then echo "MUTANT $name ($prop): caught, replay reproduces, but the replay also fails on the unchanged tree (exit $rc0)"; fail=1; continue; fi
  echo "MUTANT $name ($prop): caught in $((t1-t0))s, class $cls, replay reproduces on the mutant and passes on the unchanged tree"
done
echo "mutants: $n run, $([ $fail = 0 ] && echo all caught || echo SOME NOT CAUGHT)"
[ $fail = 0 ] || exit 2
exit 0
