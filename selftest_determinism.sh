#!/bin/bash
# Determinism self-test of the simulator (DESIGN §1.9).
#
#   selftest_determinism.sh <build-dir> [runs-per-process=240] [processes-per-setting=4]
#
# The same VERIF_SEED is executed in many separate OS processes: plain and -race builds,
# GOMAXPROCS 1, 4 and 16, several processes per setting. For the sched engine the FULL event
# log of every run (worker, kind, site at every step) plus every operation's result hash is
# written by each process and all logs must be byte-identical. For the hist and wfault
# engines the complete per-process statistics (every counter, every distinct-case hash) must
# be identical. Any difference is harness trouble: exit 2. Several VERIF_SEED values are used.
set -u
BUILD="$1"; RUNS="${2:-240}"; PROCS="${3:-4}"
HERE="$(cd "$(dirname "${BASH_SOURCE[0]}")" && pwd)"
T="$(mktemp -d "${TMPDIR:-/tmp}/goldsim-det.XXXXXX")"
trap 'rm -rf "$T"' EXIT
fail=0

# no sync.Map, and no map iteration feeding a decision: the only `range` over maps in the
# harness are in statistics merging/evidence writing (order-insensitive sums).
if grep -n "sync\.Map" "$HERE"/sim/*.go | grep -q .; then
  echo "determinism: harness uses sync.Map"; fail=1
fi

total=0
for seed in 1 7 424242; do
  # ---- sched: event logs ----
  i=0; pids=()
  for bin in goldsim goldsim-race; do
    for gmp in 1 4 16; do
      for k in $(seq 1 "$PROCS"); do
        i=$((i+1))
        ( GOMAXPROCS=$gmp VERIF_EVENTLOG="$T/ev.$seed.$i" GORACE="log_path=$T/race.$seed.$i halt_on_error=0 atexit_sleep_ms=0" \
          "$BUILD/$bin" worker -engine sched -prop C07 -seed "$seed" -tier quick -shard 0 -of 1 -runs "$RUNS" -replay-dir "$T/replays" -out "$T/st.$seed.$i.json" >"$T/log.$seed.$i" 2>&1
          echo $? > "$T/rc.$seed.$i" ) &
        pids+=($!)
        if [ ${#pids[@]} -ge 16 ]; then wait "${pids[0]}"; pids=("${pids[@]:1}"); fi
      done
    done
  done
  wait
  n=$i
  for j in $(seq 1 "$n"); do
    rc=$(cat "$T/rc.$seed.$j" 2>/dev/null || echo missing)
    if [ "$rc" != 0 ]; then echo "determinism: sched process $j (seed $seed) exit $rc"; tail -3 "$T/log.$seed.$j"; fail=1; fi
    if ! cmp -s "$T/ev.$seed.1" "$T/ev.$seed.$j"; then
      echo "determinism: sched event log of process $j differs from process 1 (VERIF_SEED=$seed)"
      diff <(cut -c1-200 "$T/ev.$seed.1") <(cut -c1-200 "$T/ev.$seed.$j") | head -6
      fail=1
    fi
  done
  lines=$(grep -c '^run ' "$T/ev.$seed.1" 2>/dev/null || echo 0)
  echo "determinism: sched VERIF_SEED=$seed: $n processes (plain+race x GOMAXPROCS 1/4/16 x $PROCS), $lines runs each, event logs $( [ $fail = 0 ] && echo identical || echo DIFFER )"
  total=$((total+n))
  rm -f "$T"/ev.* "$T"/race.* "$T"/log.* "$T"/rc.*

  # ---- hist, wfault: statistics ----
  for eng in hist:C06 hist:C15 hist:C14 wfault:C14; do
    e=${eng%%:*}; p=${eng##*:}
    for k in 1 2 3 4 5 6; do
      gmp=$(( k % 3 == 0 ? 16 : (k % 3 == 1 ? 1 : 4) ))
      ( GOMAXPROCS=$gmp "$BUILD/goldsim" worker -engine "$e" -prop "$p" -seed "$seed" -tier quick -shard 3 -of 64 -runs 6000 -replay-dir "$T/replays" -out "$T/s.$e.$p.$k.json" >"$T/l.$e.$p.$k" 2>&1 ) &
    done
    wait
    for k in 2 3 4 5 6; do
      if ! cmp -s "$T/s.$e.$p.1.json" "$T/s.$e.$p.$k.json" || ! cmp -s "$T/s.$e.$p.1.json.distinct" "$T/s.$e.$p.$k.json.distinct"; then
        echo "determinism: $e/$p statistics of process $k differ from process 1 (VERIF_SEED=$seed)"; fail=1
      fi
    done
    total=$((total+6))
  done
  echo "determinism: hist(C06,C15,C14) and wfault(C14) VERIF_SEED=$seed: 6 processes each, statistics and distinct-case hashes $( [ $fail = 0 ] && echo identical || echo DIFFER )"
  rm -f "$T"/s.* "$T"/l.*
done
if [ -d "$T/replays" ] && ls "$T/replays" | grep -q .; then
  echo "determinism: note: a run reported a violation during the self-test (see the property's own check)"
fi
echo "determinism: $total processes compared, $( [ $fail = 0 ] && echo "no divergence" || echo "DIVERGENCE" )"
[ $fail = 0 ] || exit 2
exit 0
