#!/bin/bash
# Evaluate one candidate seeded change produced by a sub-agent, in a scratch worktree.
#   eval_seed.sh <candidate-dir> <demo-pkg-dir|-> <demo-cmd> [props...]
# candidate-dir holds patch.diff and demo_test.go or demo/main.go.
# demo-pkg-dir: directory (relative to the repo root) demo_test.go is copied into ("." for root); "-" for demo/main.go
# demo-cmd: command run from the worktree root, e.g. "go test -vet=off -count=1 -run TestX ." ; must fail with the patch, pass without
# props: checks to run against the patched tree (quick tier); default none
set -u
export GOFLAGS=-mod=mod GOPROXY=off GOSUMDB=off GOTOOLCHAIN=local
HERE="$(cd "$(dirname "${BASH_SOURCE[0]}")/.." && pwd)"
C="$1"; PKG="$2"; DEMO="$3"; shift 3
ROOT="$(mktemp -d /tmp/evalseed.XXXXXX)"; WT="$ROOT/repo"
trap 'git -C /repo worktree remove --force "$WT" >/dev/null 2>&1; rm -rf "$ROOT"; git -C /repo worktree prune' EXIT
git -C /repo worktree add --detach "$WT" HEAD -q || { echo "cannot add worktree"; exit 2; }
putdemo() {
  if [ "$PKG" = "-" ]; then mkdir -p "$WT/zz_demo" && cp "$C"/demo/main.go "$WT/zz_demo/main.go"; else cp "$C"/demo_test.go "$WT/$PKG/zz_demo_test.go"; fi
}
rmdemo() { rm -rf "$WT/zz_demo" "$WT/$PKG/zz_demo_test.go" 2>/dev/null; }
cd "$WT"
# 1. demo on the clean tree must pass
putdemo; ( eval "$DEMO" ) >"$ROOT/demo_clean.log" 2>&1; rc_clean=$?; rmdemo
# 2. patch applies, builds with and without the tag
git apply "$C/patch.diff" 2>"$ROOT/apply.err" || { echo "RESULT apply=FAIL $(head -1 $ROOT/apply.err)"; exit 1; }
( go build ./... && go build -tags verif ./... ) >"$ROOT/build.log" 2>&1 || { echo "RESULT build=FAIL"; tail -5 "$ROOT/build.log"; exit 1; }
# 3. baseline suite passes with the patch
go test -vet=off -count=1 ./... >"$ROOT/suite.log" 2>&1; rc_suite=$?
if [ $rc_suite -ne 0 ]; then # a timing test may fail under load: retry once
  go test -vet=off -count=1 ./... >"$ROOT/suite.log" 2>&1; rc_suite=$?
fi
# 4. demo with the patch must fail
putdemo; ( eval "$DEMO" ) >"$ROOT/demo_patched.log" 2>&1; rc_patched=$?; rmdemo
echo "RESULT demo_clean_rc=$rc_clean suite_rc=$rc_suite demo_patched_rc=$rc_patched"
[ $rc_suite -ne 0 ] && grep -E "^(--- FAIL|FAIL|ok)" "$ROOT/suite.log" | grep -v "^ok" | head
[ $rc_clean -ne 0 ] && tail -5 "$ROOT/demo_clean.log"
[ $rc_patched -eq 0 ] && tail -5 "$ROOT/demo_patched.log"
# 5. our checks
for prop in "$@"; do
  mkdir -p "$ROOT/replays"
  t0=$(date +%s)
  VERIF_REPO="$WT" VERIF_DRIVE_ARGS="-first -no-evidence -replay-dir $ROOT/replays ${MUTANT_DRIVE_ARGS:-}" "$HERE/check" "$prop" ${EVAL_TIER:-quick} >"$ROOT/check.$prop.log" 2>&1; rc=$?
  t1=$(date +%s)
  echo "CHECK $prop exit=$rc in $((t1-t0))s: $(grep -m1 '^violation class=' "$ROOT/check.$prop.log" | cut -c1-400)"
  [ $rc -eq 2 ] && tail -5 "$ROOT/check.$prop.log"
  rp=$(grep -m1 '^VIOLATION property=' "$ROOT/check.$prop.log" | sed 's/.*replay=//')
  if [ -n "$rp" ]; then
    VERIF_REPO="$WT" "$HERE/check" replay "$rp" >"$ROOT/replay.log" 2>&1; r1=$?
    "$HERE/check" replay "$rp" >"$ROOT/replay0.log" 2>&1; r0=$?
    echo "REPLAY on patched tree exit=$r1 (want 1); on unchanged tree exit=$r0 (want 0); minimised: $(python3 -c "import json,sys;d=json.load(open(sys.argv[1]));print('ops',sum(len(c) for c in d['clients']),'docbytes',sum(len(x) for x in d.get('docs_text',[])),'from',d.get('minimised_from'))" "$rp" 2>/dev/null)"
    [ -n "${EVAL_KEEP:-}" ] && cp "$rp" "$EVAL_KEEP/"
  fi
done
