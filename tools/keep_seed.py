#!/usr/bin/env python3
"""keep_seed.py <id> <property> <src-dir> <change> <needs> <class> <history>
Copies patch.diff, demo_test.go, notes.md from <src-dir> to /verif/seeded/<id>/ and writes meta.json."""
import json, os, shutil, sys, re
sid, prop, src, change, needs, cls, hist = sys.argv[1:8]
dst = os.path.join(os.path.dirname(os.path.dirname(os.path.abspath(__file__))), 'seeded', sid)
os.makedirs(dst, exist_ok=True)
for f in ('patch.diff', 'demo_test.go', 'notes.md'):
    if os.path.exists(os.path.join(src, f)):
        shutil.copy(os.path.join(src, f), os.path.join(dst, f))
demo = ''
m = re.search(r'go test [^`\n]*', open(os.path.join(dst, 'demo_test.go')).read())
if m: demo = m.group(0).strip()
wave = re.search(r'-w(\d+)-', sid).group(1)
meta = {
 "id": sid, "property": prop,
 "origin": f"independent sub-agent, wave {wave} (given only the property text, its own scratch worktree of /repo and the list of ideas already used by earlier waves; nothing from /verif)",
 "change": change, "needs_to_manifest": needs,
 "confirmed_by_me": {
  "how": "tools/eval_seed.sh in a scratch worktree of /repo HEAD: patch applies, builds with and without -tags verif, unedited baseline suite passes, demonstration passes on the clean tree and fails with the patch",
  "demo": demo},
 "detected_by": {"check": f"./check {prop} quick", "class": cls,
  "replay_reproduces_on_patched_tree": cls not in ("NOT CAUGHT",), "replay_passes_on_unchanged_tree": cls not in ("NOT CAUGHT",),
  "history": hist}}
json.dump(meta, open(os.path.join(dst, 'meta.json'), 'w'), indent=1)
print("kept", dst)
