#!/bin/bash
# eval_wave.sh <agent-out-dir> <prop> [indices...]  — evaluate the candidates a sub-agent delivered
# (<out>/<i>/patch.diff, demo_test.go whose header names the package directory and the command)
OUT="$1"; PROP="$2"; shift 2
IDX="${*:-1 2 3}"
HERE="$(cd "$(dirname "${BASH_SOURCE[0]}")" && pwd)"
for i in $IDX; do
  d="$OUT/$i"; [ -f "$d/patch.diff" ] || { echo "== $d: no patch.diff"; continue; }
  cmd=$(grep -m1 -o 'go test [^`]*' "$d/demo_test.go" | sed 's/[[:space:]]*$//')
  pkg=$(echo "$cmd" | awk '{print $NF}'); pkg=${pkg#./}; pkg=${pkg%/}; [ -z "$pkg" ] && pkg=.
  echo "== $d  pkg=$pkg  cmd=$cmd"
  "$HERE/eval_seed.sh" "$d" "$pkg" "$cmd" $PROP 2>&1 | grep -v "^WARNING conda"
done
