package main

import (
	"fmt"
	"runtime"
)

type schedParams struct {
	prop       string
	verifSeed  uint64
	shard, of  int
	tier       string
	runs       int
	cold       bool
	coldRun    int
	replayDir  string
	maxVio     int
	noMinimise bool
	ctl        *replayCtl
}

var policies = []struct {
	name string
	args []int
}{{"random", []int{0}}, {"pct", []int{1, 2, 3}}, {"rr", []int{1, 3, 17}}, {"rtb", []int{0}}, {"herd", []int{0}}}

func genSchedSpec(p *schedParams, c *Corpus, run int, cold bool) *RunSpec {
	eng := "sched"
	if cold {
		eng = "sched-cold"
	}
	if deepBuild {
		eng += "-deep"
	}
	seed := runSeed(p.verifSeed, eng+"-"+p.prop, run)
	root := NewRng(seed)
	rc, rd, ro, rf, rs := root.Split("config"), root.Split("docs"), root.Split("ops"), root.Split("faults"), root.Split("schedule")
	c15 := p.prop == "C15"
	cfg := genConfig(rc, "any")
	if rc.Chance(1, 8) || (cold && rc.Chance(1, 2)) {
		cfg = Config{}
	}
	if c15 {
		cfg = genConfig(rc, "c15")
	}
	maxW := 4
	if p.tier == "thorough" {
		maxW = 8
	}
	n := ro.Range(2, maxW)
	if ro.Chance(1, 2) {
		n = ro.Range(2, 3)
	}
	spec := &RunSpec{Property: p.prop, Engine: "sched", VerifSeed: p.verifSeed, Run: run, RunSeed: fmt.Sprintf("%#x", seed), Cfg: cfg,
		Fresh: cold || ro.Chance(7, 10), Cold: cold, Deep: deepBuild, GoMaxProcs: runtime.GOMAXPROCS(0)}
	spec.RefAfter = !cold && root.Split("ref-after").Chance(1, 2)
	if rg := root.Split("gc"); rg.Chance(1, 25) {
		span := 200
		if deepBuild {
			span = 3000
		}
		for i := rg.Range(1, 2); i > 0; i-- {
			spec.GCAt = append(spec.GCAt, rg.Intn(span))
		}
	}
	if rs := root.Split("stall"); !cold && rs.Chance(1, 10) {
		// one worker's destination stops accepting after a few sink calls
		spec.Stall = &StallPlan{Worker: rs.Intn(n), After: pick(rs, []int{0, 0, 1, 2, 3, 5, 8, 20, 50})}
	}
	// documents
	var docs [][]byte
	herd := rd.Chance(1, 2)
	if deepBuild && !herd {
		// scheduling points inside goldmark pay off when neighbours exercise the same construct
		herd = rd.Split("deep-herd").Chance(1, 2)
	}
	switch {
	case c15:
		// collision-dense heading documents, all workers on the same shared instance
		for i := 0; i < n+rd.Intn(3); i++ {
			if rd.Chance(5, 6) {
				docs = append(docs, genHeadingDoc(rd))
			} else {
				docs = append(docs, genFamily(rd, "heading"))
			}
		}
	case cold:
		// the process's very first conversions: whatever is initialised lazily at package
		// level (today the entity table; a change could add more) is first touched here, so
		// the documents are chosen to reach as many such corners as possible
		fam := pick(rd, []string{"entity", "unilabel", "any", "mix", "composite", "composite", "composite"})
		if rh := root.Split("cold-herd"); !c15 && rh.Chance(1, 3) {
			// cold-start herd: every worker's documents come from ONE construct family, so that
			// whatever that family's code initialises lazily at package level is first used, in
			// this process, by several workers at once
			var hf string
			if rh.Split("gate-herd").Chance(1, 2) {
				// ... and from behind ONE gate of that family's generator
				docs, hf = genGateHerd(rh, n+rh.Intn(3))
			} else {
				docs, hf = genHerd(rh, c, n+rh.Intn(3))
			}
			spec.Cfg = biasConfig(rh, spec.Cfg, hf)
			fam = "herd"
		}
		if fam == "composite" && !c15 {
			// everything switched on in two thirds of these runs
			if rd.Chance(2, 3) {
				spec.Cfg = Config{GFM: true, DefList: true, Footnote: true, Typographer: true, CJK: pick(rd, []string{"", "default", "css3"}), AutoID: true, Attribute: rd.Chance(1, 2),
					TableAlign: pick(rd, []string{"", "style", "attribute"}), FootnoteOpt: pick(rd, []string{"", "prefix", "prefixfn", "titles"}), LinkifyOpt: pick(rd, []string{"", "protocols", "regexp"}),
					Unsafe: rd.Chance(1, 3), XHTML: rd.Chance(1, 3), HardWraps: rd.Chance(1, 4)}
			}
		}
		for i := 0; i < n && fam != "herd"; i++ {
			switch {
			case fam == "composite":
				docs = append(docs, genComposite(rd, rd.Range(3, 7)))
			case fam == "entity" && rd.Chance(2, 3) && len(c.Entity) > 0:
				docs = append(docs, pick(rd, c.Entity))
			case fam == "entity":
				docs = append(docs, genFamily(rd, "entity"))
			case fam == "unilabel":
				docs = append(docs, genFamily(rd, "unilabel"))
			case fam == "any":
				docs = append(docs, genAnyDoc(rd, c))
			default:
				docs = append(docs, genFamily(rd, pick(rd, families)))
			}
		}
	case herd:
		var fam string
		docs, fam = genHerd(rd, c, n+rd.Intn(3))
		if rd.Chance(3, 4) {
			spec.Cfg = biasConfig(rd, spec.Cfg, fam)
		}
	default:
		for i := 0; i < n+rd.Intn(3); i++ {
			if p.tier == "thorough" && rd.Chance(1, 40) {
				docs = append(docs, genLarge(rd, c, 3000))
			} else {
				docs = append(docs, genAnyDoc(rd, c))
			}
		}
	}
	spec.Docs = docs
	// scripts
	mode := ro.Intn(10) // 0: parser-only/renderer-only mix ("likewise a single Parser or Renderer")
	treeN := 0
	for i := 0; i < n; i++ {
		k := ro.Range(1, 3)
		if ro.Chance(1, 2) {
			k = 1
		}
		var ops []Op
		reuseW := ro.Split("reuse").Chance(1, 5) // this caller reads all its documents into one reused buffer
		for j := 0; j < k; j++ {
			d := ro.Intn(len(docs))
			if j == 0 && i < len(docs) && ro.Chance(3, 4) {
				d = i // own document; otherwise the same slice as somebody else
			}
			op := Op{Doc: d, Stack: genStack(ro), Ctx: ro.Chance(4, 5), Reader: ro.Chance(3, 4), Reuse: reuseW}
			if !op.Ctx && ro.Split("ownctx").Chance(1, 2) {
				op.CtxPlain = true // the caller's own plain context, read after the call
			}
			x := ro.Intn(100)
			switch {
			case c15 && x < 50:
				op.Kind = "Convert"
			case c15 && x < 90:
				op.Kind = "ParseRender"
			case c15:
				op.Kind = "ParseOnly"
			case mode == 0:
				if (i+j)%2 == 0 {
					op.Kind = "ParseOnly"
				} else {
					op.Kind = "RenderPre"
					treeN++
					op.Tree = treeN
				}
			case cold && x < 50:
				op.Kind = "PkgConvert"
			case x < 45:
				op.Kind = "Convert"
			case x < 80:
				op.Kind = "ParseRender"
			case x < 90:
				op.Kind = "PkgConvert"
			case x < 91:
				op.Kind = "ParseOnly"
			case x < 96:
				// another instance, of another configuration, built and used by this worker while
				// the others use the shared one
				ac := genConfig(ro.Split("aux"), "any")
				if ro.Chance(1, 4) {
					ac = spec.Cfg
				} else if ro.Chance(1, 2) {
					// the same extensions with other options: whatever the two instances share
					// below the surface (package-level parser or renderer objects) gets both
					ac = configVariant(ro.Split("aux-variant"), spec.Cfg, false)
				}
				op.Kind, op.Aux, op.Reader = "AuxConvert", &ac, false
			default:
				op.Kind = "RenderPre"
				treeN++
				op.Tree = treeN
			}
			if !c15 && op.Kind != "ParseOnly" && (rf.Chance(1, 8) || p.prop == "C14" && rf.Chance(1, 2)) {
				op.Fault = genFault(rf, 200)
			}
			ops = append(ops, op)
		}
		spec.Clients = append(spec.Clients, ops)
	}
	if rl := root.Split("stall-long"); spec.Stall != nil && !deepBuild && len(spec.Docs) > 0 && rl.Chance(1, 3) {
		// while one worker's destination is stalled the others go through MANY small calls on the
		// shared instance (whatever hands out per-call resources round robin, or counts calls,
		// comes back to the stalled call's)
		tiny := len(spec.Docs)
		spec.Docs = append(spec.Docs, []byte("a *b*\n"), []byte("# h\n\n- x\n"))
		for i := range spec.Clients {
			if i == spec.Stall.Worker {
				continue
			}
			for k := rl.Range(40, 150); k > 0; k-- {
				spec.Clients[i] = append(spec.Clients[i], Op{Kind: pick(rl, []string{"Convert", "Convert", "ParseRender"}), Doc: tiny + rl.Intn(2), Stack: "W1"})
			}
		}
	}
	pol := pick(rs, policies)
	spec.Policy = pol.name
	spec.PolicyArg = pick(rs, pol.args)
	spec.SchedSeed = rs.Next()
	if rsw := root.Split("syncsw"); deepBuild && rsw.Chance(1, 4) {
		// deep build: a quarter of the runs switch workers at the scheduling points around
		// synchronisation calls (and Once sites) only
		spec.Policy, spec.PolicyArg = "syncsw", pick(rsw, []int{2, 4, 12, 40})
	}
	return spec
}

func schedRunOne(p *schedParams, st *Stats, spec *RunSpec) {
	v := executeSpec(spec, st)
	if p.ctl != nil {
		if v != nil {
			p.ctl.capture(spec, v)
		}
		return
	}
	st.Inc("evaluations")
	if spec.Deep {
		st.Inc("deep_runs")
	}
	st.Inc("policy." + spec.Policy)
	st.Inc(fmt.Sprintf("workers.%d", len(spec.Clients)))
	if spec.Fresh {
		st.Inc("fresh_instance_runs")
	}
	if spec.Cold {
		st.Inc("cold_start_runs")
	}
	st.Inc("cfg." + spec.Cfg.Key())
	if spec.Run < 2*p.of || spec.Cold && spec.Run < 3 {
		var cs [][]string
		for _, ops := range spec.Clients {
			var os []string
			for _, o := range ops {
				os = append(os, o.String())
			}
			cs = append(cs, os)
		}
		var ds []string
		for _, d := range spec.Docs {
			ds = append(ds, clipStr(d, 60))
		}
		dl := spec.Decisions
		if len(dl) > 60 {
			dl = dl[:60]
		}
		st.Sample(map[string]interface{}{"engine": "sched", "run": spec.Run, "run_seed": spec.RunSeed, "config": spec.Cfg.Key(), "fresh_instance": spec.Fresh, "cold_start": spec.Cold,
			"policy": fmt.Sprintf("%s(%d)", spec.Policy, spec.PolicyArg), "clients": cs, "docs": ds, "decisions_prefix": dl, "decisions_total": len(spec.Decisions), "events_sha": spec.EventsSha})
	}
	if v != nil {
		st.Inc("violations_seen")
		st.Inc("violation_class." + v.Class)
		if len(st.Violations) < p.maxVio {
			reportViolation(spec, v, st, p.replayDir, !p.noMinimise && !spec.Cold)
		}
	}
}

func schedWorker(p *schedParams, st *Stats) {
	if err := onceSelfTest(); err != nil {
		st.Trouble = append(st.Trouble, "sync.Once layout self-test failed: "+err.Error())
		return
	}
	c := loadCorpus()
	if p.cold {
		// exactly one run: the process's very first use of goldmark's lazily initialised
		// package-level state happens under the scheduler
		schedRunOne(p, st, genSchedSpec(p, c, p.coldRun, true))
		return
	}
	start := p.shard
	if p.ctl != nil {
		start = p.ctl.from
	} else {
		curProc = &ProcHistory{Tier: p.tier, Shard: p.shard, Of: p.of, Runs: p.runs}
	}
	for run := start; run < p.runs; run += p.of {
		if p.ctl != nil && run > p.ctl.until {
			break
		}
		schedRunOne(p, st, genSchedSpec(p, c, run, false))
		if len(st.Trouble) > 0 || stopAtFirst && len(st.Violations) > 0 {
			return
		}
		for _, v := range st.Violations {
			if v.Class == "deadlock" {
				return // goroutines of a deadlocked run are leaked; do not continue in this process
			}
		}
	}
}
