//go:build deep

package main

import "github.com/yuin/goldmark/util"

// Built against a copy of goldmark rewritten by ./instr: scheduling points inside goldmark
// (function entries of the packages holding shared objects, writes through receivers and to
// package-level variables, calls of synchronisation primitives).
const deepBuild = true

func installDeep(f func(id uint32)) { util.SimYield = f }
