package main

import (
	"fmt"
	"os"
)

func cmdSelftest(args []string) {
	if len(args) < 1 {
		fmt.Fprintln(os.Stderr, "usage: goldsim selftest transparent")
		os.Exit(2)
	}
	switch args[0] {
	case "transparent":
		selftestTransparent()
	default:
		fmt.Fprintln(os.Stderr, "unknown selftest", args[0])
		os.Exit(2)
	}
}

// selftestTransparent: wrapping the seams with the delegating stubs changes no output byte
// on the whole corpus and on generated documents, for a sample of configurations.
func selftestTransparent() {
	c := loadCorpus()
	r := NewRng(envSeed())
	n, bad := 0, 0
	docs := append([][]byte{}, c.All...)
	for i := 0; i < 2000; i++ {
		docs = append(docs, genAnyDoc(r, c))
	}
	for _, d := range docs {
		for k := 0; k < 3; k++ {
			cfg := genConfig(r, "any")
			ref, err, pan := refCompute(cfg, d)
			if err != nil || pan != "" {
				continue
			}
			for _, op := range []Op{{Kind: "Convert", Stack: "W3", Ctx: true}, {Kind: "ParseRender", Stack: "W2:17", Ctx: true, Reader: true}, {Kind: "ParseRender", Stack: "W1", Reader: true}} {
				res := runSolo(cfg, [][]byte{d}, op)
				n++
				if res.Panic != "" || res.Err != nil || string(res.Out) != string(ref) {
					bad++
					fmt.Printf("NOT TRANSPARENT cfg=%s op=%s doc=%q\n", cfg.Key(), op, d)
				}
			}
		}
	}
	fmt.Printf("selftest transparent: %d wrapped conversions, %d differences\n", n, bad)
	if bad > 0 {
		os.Exit(2)
	}
}
