//go:build !deep

package main

const deepBuild = false

func installDeep(f func(id uint32)) {}
