package main

import (
	"bufio"
	"bytes"
	"crypto/sha256"
	"encoding/hex"
	"errors"
	"fmt"
	"io"
	"runtime"
	"runtime/debug"

	"github.com/yuin/goldmark"
	"github.com/yuin/goldmark/ast"
	"github.com/yuin/goldmark/parser"
	"github.com/yuin/goldmark/renderer"
	"github.com/yuin/goldmark/text"
)

// ---- run description (what a replay file contains) -------------------------------------

type Op struct {
	Kind  string `json:"op"` // Convert PkgConvert Parse Render ParseRender RenderPre ParseOnly Walk
	Doc   int    `json:"doc"`
	Tree  int    `json:"tree,omitempty"` // Parse: slot written; Render/Walk: slot read
	Stack string `json:"stack,omitempty"`
	Ctx   bool   `json:"ctx,omitempty"` // delegating parser.Context wrapper
	// CtxPlain: the caller passes its own parser.NewContext() (not wrapped) and reads it after
	// the call (references, ids), as callers that fetch metadata from the context do
	CtxPlain bool       `json:"ctx_plain,omitempty"`
	Reader   bool       `json:"reader,omitempty"` // delegating text.Reader wrapper (Parse paths)
	Fault    *FaultPlan `json:"fault,omitempty"`
	Aux      *Config    `json:"aux,omitempty"` // AuxConvert: configuration of the other instance
	// Reuse: the caller reads every document into ONE buffer it reuses from call to call
	// (as a server reading request bodies does): the source handed to goldmark is that
	// buffer, overwritten by the next such call. Only for calls that do not keep a tree.
	Reuse bool `json:"reuse_buffer,omitempty"`
}

func (o Op) String() string {
	s := fmt.Sprintf("%s(doc=%d", o.Kind, o.Doc)
	if o.Kind == "Parse" || o.Kind == "Render" || o.Kind == "Walk" || o.Kind == "RenderOther" {
		s += fmt.Sprintf(",tree=%d", o.Tree)
	}
	if o.Stack != "" {
		s += "," + o.Stack
	}
	if o.Ctx {
		s += ",ctx"
	}
	if o.CtxPlain {
		s += ",ownctx"
	}
	if o.Reader {
		s += ",rd"
	}
	if o.Fault != nil {
		s += "," + o.Fault.String()
	}
	if o.Aux != nil {
		s += ",aux{" + o.Aux.Key() + "}"
	}
	if o.Reuse {
		s += ",reusebuf"
	}
	return s + ")"
}

type Expect struct {
	Client    int    `json:"client"`
	Op        int    `json:"op"`
	WantSha   string `json:"want_sha,omitempty"`
	GotSha    string `json:"got_sha,omitempty"`
	FirstDiff int    `json:"first_diff,omitempty"`
	Detail    string `json:"detail,omitempty"`
}

type MinFrom struct {
	Clients   int `json:"clients"`
	Ops       int `json:"ops"`
	DocBytes  int `json:"doc_bytes"`
	Decisions int `json:"decisions"`
	Switches  int `json:"switches"`
	Tried     int `json:"candidates_tried"`
}

type RunSpec struct {
	Property  string   `json:"property"`
	Class     string   `json:"class,omitempty"`
	Engine    string   `json:"engine"`
	VerifSeed uint64   `json:"verif_seed"`
	Run       int      `json:"run"`
	RunSeed   string   `json:"run_seed"`
	Tags      string   `json:"tags,omitempty"`
	Go        string   `json:"go,omitempty"`
	Cfg       Config   `json:"config"`
	Docs      [][]byte `json:"docs"` // base64 in JSON
	DocsText  []string `json:"docs_text,omitempty"`
	Clients   [][]Op   `json:"clients"`

	// sched only
	GoMaxProcs int  `json:"gomaxprocs,omitempty"` // of the worker process that found it (sync.Pool and the Go scheduler depend on it)
	Deep       bool `json:"deep,omitempty"`       // built against the instrumented copy (scheduling points inside goldmark)
	Fresh      bool `json:"fresh_instance,omitempty"`
	Cold       bool `json:"cold_start,omitempty"`
	// RefAfter: the expected results (each call alone on a fresh instance) are computed after
	// the schedule has run, not before, so that the workers, not the reference, are the first
	// in the process to see this run's documents (package-level caches are cold for them)
	RefAfter  bool    `json:"ref_after,omitempty"`
	Policy    string  `json:"policy,omitempty"`
	PolicyArg int     `json:"policy_arg,omitempty"`
	SchedSeed uint64  `json:"sched_seed,omitempty"`
	Decisions []int16 `json:"decisions,omitempty"` // worker released at each step; -1 = default rule
	// GCAt: scheduling steps before which the simulator makes the Go runtime collect garbage
	// (two cycles: sync.Pool caches of the code under test are empty afterwards)
	GCAt []int `json:"gc_at,omitempty"`
	// Stall: the destination of one worker stops accepting (a client that stops reading): the
	// worker stays parked inside its (after+1)-th sink call until every other worker has
	// finished. Nobody else may depend on it.
	Stall *StallPlan `json:"stall,omitempty"`

	// ProcHist: set when the violation needs what the same OS process executed before this
	// run (state kept at package level by the code under test); replay then re-executes the
	// worker's run sequence FromRun..UntilRun (same seed, same shard) in a fresh process.
	ProcHist *ProcHistory `json:"process_history,omitempty"`

	Expect     *Expect  `json:"expect,omitempty"`
	EventsSha  string   `json:"events_sha,omitempty"`
	MinFrom    *MinFrom `json:"minimised_from,omitempty"`
	RaceReport string   `json:"race_report,omitempty"`
	Note       string   `json:"note,omitempty"`
}

type StallPlan struct {
	Worker int `json:"worker"`
	After  int `json:"after_sink_calls"`
}

type ProcHistory struct {
	Tier     string `json:"tier"`
	Shard    int    `json:"shard"`
	Of       int    `json:"of"`
	Runs     int    `json:"runs"`
	FromRun  int    `json:"from_run"`
	UntilRun int    `json:"until_run"`
	Needed   bool   `json:"needed"` // the run alone does not reproduce in a fresh process
	// Pristine: after the run sequence, the spec's single (configuration, document) pair is
	// converted by a new instance in this process and compared with a fresh OS process.
	Pristine bool `json:"pristine,omitempty"`
}

func (s *RunSpec) totalOps() int {
	n := 0
	for _, c := range s.Clients {
		n += len(c)
	}
	return n
}
func (s *RunSpec) docBytes() int {
	n := 0
	for _, d := range s.Docs {
		n += len(d)
	}
	return n
}

func (s *RunSpec) clone() *RunSpec {
	c := *s
	c.Docs = make([][]byte, len(s.Docs))
	for i, d := range s.Docs {
		c.Docs[i] = append([]byte(nil), d...)
	}
	c.Clients = make([][]Op, len(s.Clients))
	for i, ops := range s.Clients {
		c.Clients[i] = make([]Op, len(ops))
		for j, o := range ops {
			if o.Fault != nil {
				f := *o.Fault
				o.Fault = &f
			}
			c.Clients[i][j] = o
		}
	}
	c.Decisions = append([]int16(nil), s.Decisions...)
	c.GCAt = append([]int(nil), s.GCAt...)
	if s.Stall != nil {
		st := *s.Stall
		c.Stall = &st
	}
	c.Expect = nil
	return &c
}

// Violation is what an oracle reports.
type Violation struct {
	Class  string
	Client int
	Op     int
	Want   []byte
	Got    []byte
	Detail string
	Race   string
}

func (v *Violation) expect() *Expect {
	e := &Expect{Client: v.Client, Op: v.Op, Detail: v.Detail}
	if v.Want != nil || v.Got != nil {
		e.WantSha = sha(v.Want)
		e.GotSha = sha(v.Got)
		e.FirstDiff = firstDiff(v.Want, v.Got)
	}
	return e
}

func sha(b []byte) string { h := sha256.Sum256(b); return hex.EncodeToString(h[:8]) }

func firstDiff(a, b []byte) int {
	n := len(a)
	if len(b) < n {
		n = len(b)
	}
	for i := 0; i < n; i++ {
		if a[i] != b[i] {
			return i
		}
	}
	if len(a) != len(b) {
		return n
	}
	return -1
}

func clip(b []byte, n int) string {
	if len(b) > n {
		return fmt.Sprintf("%q…(%d bytes)", b[:n], len(b))
	}
	return fmt.Sprintf("%q", b)
}

// ---- executing one operation on the real code -------------------------------------------

// Env is the system under simulation: real goldmark objects, nothing modelled.
type Env struct {
	cfg  Config
	md   goldmark.Markdown
	p    parser.Parser
	r    renderer.Renderer
	docs [][]byte
	orig [][]byte // pristine copies of docs: what the caller asked to convert
	// other instances created during the run (AuxConvert, RenderOther), one table per client so
	// that concurrent clients never share harness state
	aux [16]map[string]goldmark.Markdown
	// one reusable read buffer per client (index = client id), see Op.Reuse
	scratch [16][]byte
	// stack W2k: one long-lived bufio.Writer per client over one long-lived destination (a
	// server writing document after document to the same buffered connection)
	keepBW   [16]*bufio.Writer
	keepSink [16]*Sink
}

func newEnv(cfg Config, docs [][]byte) *Env {
	md := cfg.Build()
	e := &Env{cfg: cfg, md: md, p: md.Parser(), r: md.Renderer(), docs: docs}
	e.orig = make([][]byte, len(docs))
	for i, d := range docs {
		e.orig[i] = append([]byte{}, d...)
	}
	return e
}

// auxFor: the instance of configuration c that client uses next to the one under test; created
// at its first use (inside the simulated phase, as a server building per-request instances
// does) and kept for the rest of the run.
func (e *Env) auxFor(client int, c *Config) goldmark.Markdown {
	if client < 0 || client >= len(e.aux) {
		client = 0
	}
	if e.aux[client] == nil {
		e.aux[client] = map[string]goldmark.Markdown{}
	}
	k := c.Key()
	m := e.aux[client][k]
	if m == nil {
		m = c.Build()
		e.aux[client][k] = m
	}
	return m
}

// pristine returns the bytes document d had when the run started. The reference model is
// always asked about these, so a conversion that edits the caller's slice in place shows up
// as a later conversion of "the same source" giving different bytes.
func (e *Env) pristine(d int) []byte {
	if d < 0 || d >= len(e.orig) {
		return nil
	}
	return e.orig[d]
}

type treeHandle struct {
	node    ast.Node
	doc     int
	renders int
	born    int // op index at which it was parsed
	// renders done by a Renderer of another (renderer-side) configuration
	otherRenders int
}

type OpResult struct {
	Skipped bool
	Out     []byte // everything the sink accepted
	Err     error
	Panic   string
	Sink    *Sink
	Tree    *treeHandle
	Walked  uint64
	// digest of the caller's own context read after the call (ops with Ctx / CtxPlain)
	CtxDigest uint64
	HasCtx    bool
}

func (e *Env) src(op Op) []byte {
	if op.Doc < 0 || op.Doc >= len(e.docs) {
		return nil
	}
	if e.docs[op.Doc] == nil {
		return []byte{}
	}
	return e.docs[op.Doc]
}

// parseOpts: the parse options of a call and, when the caller supplies its own context, that
// context (so that the caller can look into it after the call, see inspectCtx).
func parseOpts(op Op, y *yielder, keep *parser.Context) []parser.ParseOption {
	// A ParseOption is a function the parser calls while it sets a call up: one more seam the
	// code already has. Under the scheduler a no-op option yields there, i.e. INSIDE the
	// prologue of Parse, between the creation of the call's configuration and its first use
	// (before and after the caller's context is handed over).
	var yo parser.ParseOption
	if y != nil {
		yo = func(*parser.ParseConfig) { y.yield(sitePO) }
	}
	wrap := func(o parser.ParseOption) []parser.ParseOption {
		if yo == nil {
			return []parser.ParseOption{o}
		}
		return []parser.ParseOption{yo, o, yo}
	}
	switch {
	case op.Ctx:
		inner := parser.NewContext()
		*keep = inner
		return wrap(parser.WithContext(&simCtx{inner, y}))
	case op.CtxPlain:
		pc := parser.NewContext()
		*keep = pc
		return wrap(parser.WithContext(pc))
	}
	if yo != nil {
		return []parser.ParseOption{yo}
	}
	return nil
}

// inspectCtx: what a caller that passed its own context reads from it after the call (link
// references, bookkeeping). Reads only. The digest is a pure function of (configuration,
// document) on a correct tree.
func inspectCtx(pc parser.Context) uint64 {
	h := uint64(0xcbf29ce484222325)
	for _, r := range pc.References() {
		h = hashBytes(h, r.Label())
		h = hashBytes(h, r.Destination())
		h = hashBytes(h, r.Title())
		h = hashU64(h, 1)
	}
	h = hashU64(h, uint64(len(pc.OpenedBlocks())))
	if pc.LastDelimiter() != nil {
		h = hashU64(h, 2)
	}
	if pc.IsInLinkLabel() {
		h = hashU64(h, 3)
	}
	_ = pc.IDs()
	return h
}

func mkReader(op Op, src []byte, y *yielder) text.Reader {
	rd := text.NewReader(src)
	if op.Reader {
		return &simReader{rd, y}
	}
	return rd
}

// execOp runs one operation. trees is the caller's (client's) private tree pool.
// It never lets a panic escape; a panic is part of the result.
func execOp(e *Env, trees map[int]*treeHandle, client, idx int, op Op, y *yielder) (res OpResult) {
	src := e.src(op)
	if src == nil {
		res.Skipped = true
		return
	}
	defer func() {
		if r := recover(); r != nil {
			res.Panic = fmt.Sprintf("%v\n%s", r, debug.Stack())
			if res.Sink != nil {
				res.Out = res.Sink.acc
			}
		}
	}()
	if op.Reuse && (op.Kind == "Convert" || op.Kind == "PkgConvert" || op.Kind == "AuxConvert" || op.Kind == "ParseRender") && client >= 0 && client < len(e.scratch) {
		buf := append(e.scratch[client][:0], src...)
		e.scratch[client] = buf
		src = buf
	}
	var ownCtx parser.Context // the context this caller passed in, if any
	defer func() {
		if ownCtx != nil && res.Panic == "" {
			func() {
				defer func() {
					if r := recover(); r != nil {
						res.Panic = fmt.Sprintf("reading the caller's own context after the call: %v\n%s", r, debug.Stack())
					}
				}()
				res.CtxDigest = inspectCtx(ownCtx)
				res.HasCtx = true
			}()
		}
	}()
	var w io.Writer
	needW := op.Kind != "Parse" && op.Kind != "ParseOnly" && op.Kind != "Walk" && op.Kind != "GC"
	keepFrom := -1
	if needW {
		st := op.Stack
		if st == "" {
			st = "W1"
		}
		if len(st) > 4 && st[:4] == "W2k:" && (op.Fault != nil || client < 0 || client >= len(e.keepBW)) {
			st = "W2:" + st[4:] // the long-lived writer is only used by fault-free calls
		}
		if len(st) > 4 && st[:4] == "W2k:" {
			if e.keepBW[client] == nil {
				size := 0
				fmt.Sscanf(st[4:], "%d", &size)
				if size <= 0 {
					panic("bad stack " + st)
				}
				e.keepSink[client] = NewSink(nil, uint64(client)<<32|0xffff)
				e.keepBW[client] = bufio.NewWriterSize(e.keepSink[client], size)
			}
			res.Sink = e.keepSink[client]
			res.Sink.y = y
			keepFrom = len(res.Sink.acc)
			if y == nil || idx%2 == 1 {
				w = e.keepBW[client] // the bare *bufio.Writer, as a caller passes it
			} else {
				w = yieldingBuf{e.keepBW[client], y, nil}
			}
		} else {
			res.Sink = NewSink(op.Fault, uint64(client)<<32|uint64(idx))
			w = mkStack(st, res.Sink, y)
		}
	}
	switch op.Kind {
	case "Convert":
		res.Err = e.md.Convert(src, w, parseOpts(op, y, &ownCtx)...)
	case "PkgConvert":
		res.Err = goldmark.Convert(src, w, parseOpts(op, y, &ownCtx)...)
	case "AuxConvert":
		// another instance, of another configuration, living next to the one under test: it is
		// created at its first use and kept for the rest of the run
		res.Err = e.auxFor(client, op.Aux).Convert(src, w, parseOpts(op, y, &ownCtx)...)
	case "Parse", "ParseOnly":
		n := e.p.Parse(mkReader(op, src, y), parseOpts(op, y, &ownCtx)...)
		res.Tree = &treeHandle{node: n, doc: op.Doc, born: idx}
		if trees != nil {
			trees[op.Tree] = res.Tree
		}
	case "ParseRender":
		n := e.p.Parse(mkReader(op, src, y), parseOpts(op, y, &ownCtx)...)
		res.Tree = &treeHandle{node: n, doc: op.Doc, born: idx}
		res.Err = e.r.Render(w, src, n)
		res.Tree.renders++
	case "RenderChild":
		// Renderer.Render called directly on a subtree (the first top-level block), as callers
		// that render fragments do
		n := e.p.Parse(mkReader(op, src, y), parseOpts(op, y, &ownCtx)...)
		c := n.FirstChild()
		if c == nil {
			res.Skipped = true
			return
		}
		res.Tree = &treeHandle{node: n, doc: op.Doc, born: idx}
		res.Err = e.r.Render(w, src, c)
	case "Render", "RenderPre":
		t := trees[op.Tree]
		if t == nil {
			res.Skipped = true
			return
		}
		res.Tree = t
		res.Err = e.r.Render(w, e.docs[t.doc], t.node)
		t.renders++
	case "RenderOther":
		// the tree is rendered by the Renderer of ANOTHER instance whose configuration differs
		// from ours on the renderer side only: if rendering does not alter the tree, the result is
		// what that other configuration gives for the source
		t := trees[op.Tree]
		if t == nil || op.Aux == nil || parserSide(*op.Aux) != parserSide(e.cfg) {
			// (a shrinking candidate that simplified only one of the two configurations)
			res.Skipped = true
			return
		}
		res.Tree = t
		res.Err = e.auxFor(client, op.Aux).Renderer().Render(w, e.docs[t.doc], t.node)
		t.renders++
		t.otherRenders++
	case "GC":
		// an event of the environment, injected by the simulator: the Go runtime collects
		// garbage here. Two cycles, so that sync.Pool's victim cache is emptied as well and the
		// next Get of any pool in the code under test goes through its New function.
		runtime.GC()
		runtime.GC()
	case "Walk":
		t := trees[op.Tree]
		if t == nil {
			res.Skipped = true
			return
		}
		res.Tree = t
		res.Walked = fingerprint(t.node, e.docs[t.doc])
	default:
		panic("unknown op " + op.Kind)
	}
	if yb, ok := w.(yieldingBuf); ok && yb.s != nil {
		yb.callerFlush()
	}
	if res.Sink != nil && res.Sink.nonSticky {
		res.Sink.errCallsAtReturn, res.Sink.returned = res.Sink.errCalls, true
	}
	if keepFrom >= 0 {
		// what this call added to the long-lived destination
		res.Out = append([]byte{}, res.Sink.acc[keepFrom:]...)
		return
	}
	if res.Sink != nil {
		res.Out = res.Sink.acc
		if n := len(res.Sink.prefix); n > 0 && res.Sink.plan == nil && len(res.Out) >= n {
			res.Out = res.Out[n:] // fault-free: what goldmark produced, without the caller's header
		}
	}
	return
}

// fingerprint walks a tree read-only through public accessors.
func fingerprint(n ast.Node, src []byte) uint64 {
	h := uint64(0xcbf29ce484222325)
	_ = ast.Walk(n, func(n ast.Node, entering bool) (ast.WalkStatus, error) {
		if !entering {
			h = hashU64(h, 0xff)
			return ast.WalkContinue, nil
		}
		h = hashU64(h, uint64(n.Kind()))
		h = hashU64(h, uint64(n.ChildCount()))
		for _, a := range n.Attributes() {
			h = hashBytes(h, a.Name)
			h = hashBytes(h, []byte(fmt.Sprint(a.Value)))
		}
		if n.Type() == ast.TypeBlock {
			if ls := n.Lines(); ls != nil {
				for i := 0; i < ls.Len(); i++ {
					s := ls.At(i)
					h = hashU64(h, uint64(s.Start)<<32|uint64(uint32(s.Stop)))
				}
			}
		}
		if t, ok := n.(*ast.Text); ok {
			h = hashU64(h, uint64(t.Segment.Start)<<32|uint64(uint32(t.Segment.Stop)))
		}
		return ast.WalkContinue, nil
	})
	return h
}

// ---- reference model ---------------------------------------------------------------------

// REF(cfg, src): a brand new instance, used once, alone, with a writer that cannot fail.
// Memoised; a seeded share of lookups recomputes from scratch and compares with the memo,
// so "a fresh instance gives the same bytes every time" is itself checked.

type refKey struct {
	cfg string
	doc string
}

type refEntry struct {
	cfg      Config
	out      []byte
	ids      []string // heading ids found in out (C15 configs only)
	headings int      // Heading nodes in the parsed tree (C15 configs only)
	c15      *Violation
}

type RefModel struct {
	m         map[refKey]*refEntry
	computed  int
	recheck   int
	rng       *Rng
	Unstable  *Violation // set when a recomputation differed
	withTrees bool       // compute via Parse+Render and keep heading counts
	// quiet: no recomputation of memoised entries (runs that count calls exactly: a recomputed
	// reference is a conversion, too, and would shift the count by a seeded but arbitrary amount)
	quiet bool
}

func NewRefModel(seed uint64) *RefModel {
	return &RefModel{m: map[refKey]*refEntry{}, rng: NewRng(seed)}
}

func refCompute(cfg Config, src []byte) (out []byte, err error, pan string) {
	defer func() {
		if r := recover(); r != nil {
			pan = fmt.Sprintf("%v\n%s", r, debug.Stack())
		}
	}()
	var b bytes.Buffer
	err = cfg.Build().Convert(src, &b)
	return b.Bytes(), err, ""
}

func (m *RefModel) Get(cfg Config, src []byte) *refEntry {
	k := refKey{cfg.Key(), string(src)}
	if e, ok := m.m[k]; ok {
		if !m.quiet && m.rng.Intn(50) == 0 {
			m.recheck++
			out, err, pan := refCompute(cfg, src)
			if (err != nil || pan != "" || !bytes.Equal(out, e.out)) && m.Unstable == nil {
				m.Unstable = &Violation{Class: "ref-unstable", Want: e.out, Got: out,
					Detail: fmt.Sprintf("fresh instance of %s gave different bytes for the same source at two points of the process lifetime (err=%v panic=%q)", cfg, err, firstLine(pan))}
			}
		}
		return e
	}
	m.computed++
	if len(m.m) >= 40000 {
		// bound the memory of a long worker: start a new memo (entries are recomputed on demand)
		m.m = map[refKey]*refEntry{}
	}
	out, err, pan := refCompute(cfg, src)
	e := &refEntry{out: out, cfg: cfg}
	if err != nil || pan != "" {
		// The reference itself failing is not something these properties decide (C01 is
		// about totality); remember it so callers can skip the comparison.
		e.out = nil
	}
	if cfg.C15Applies() && e.out != nil {
		e.ids, e.c15 = headingIDs(e.out)
		e.headings = -1
	}
	m.m[k] = e
	return e
}

func firstLine(s string) string {
	for i := 0; i < len(s); i++ {
		if s[i] == '\n' {
			return s[:i]
		}
	}
	return s
}

// inspectErr does what a caller does with the error it got back: print it and ask whether it
// is (or wraps) the writer's error. A non-nil error that panics when touched (a typed nil
// pointer in an error interface) is reported, not allowed to take the harness down.
func inspectErr(err, target error) (is bool, text string, pan string) {
	defer func() {
		if r := recover(); r != nil {
			pan = fmt.Sprint(r)
		}
	}()
	text = err.Error()
	if len(text) > 300 {
		text = text[:300] + fmt.Sprintf("...(%d bytes)", len(text))
	}
	is = errors.Is(err, target)
	return
}

// ---- the C14 oracle (also used wherever an operation carries a fault plan) -------------

// checkFaulted applies the clauses of C14 to one faulted (or control) operation.
// R is the fault-free output obtained with the same stack.
func checkFaulted(res *OpResult, R []byte) *Violation {
	s := res.Sink
	failedDuringCall := s.errCalls > 0
	if len(s.prefix) > 0 {
		// W2p: the sink receives the caller's header first; failures are attributed to the call
		// only if they happened before goldmark returned (the caller's own flush comes later)
		R = append(append([]byte{}, s.prefix...), R...)
		failedDuringCall = s.returned && s.errCallsAtReturn > 0
	}
	if res.Panic != "" {
		return &Violation{Class: "panic", Detail: "panic with a failing writer: " + firstLine(res.Panic), Got: s.acc, Want: R}
	}
	if s.nonSticky && (s.errCalls > 0 && !s.judged || s.shortNil > 0) {
		// a destination that does not remember errors failed where only a discarded write
		// result showed it: lost by design, not judged (see Sink.judged)
		return nil
	}
	all := s.acc
	if s.plan != nil && s.plan.Kind == "short+nil" {
		// contract-breaking writer: relaxed, narrow oracle
		if !bytes.HasPrefix(R, all) {
			return &Violation{Class: "not-a-prefix", Want: R, Got: all, Detail: "bytes accepted by a short-writing (n<len, nil) writer are not a prefix of the fault-free output"}
		}
		if res.Err == nil && !bytes.Equal(all, R) {
			return &Violation{Class: "success-but-incomplete", Want: R, Got: all, Detail: "nil error but the writer did not receive the whole output"}
		}
		return nil
	}
	if s.errCalls > 0 && !failedDuringCall && res.Err == nil {
		// the destination failed only when the caller flushed its own writer afterwards: what
		// it accepted must still be a prefix of the page
		if !bytes.HasPrefix(R, all) {
			return &Violation{Class: "not-a-prefix", Want: R, Got: all, Detail: "bytes accepted by the destination are not a prefix of header + fault-free output"}
		}
		return nil
	}
	if s.errCalls > 0 {
		if res.Err == nil {
			return &Violation{Class: "error-swallowed", Want: R, Got: all,
				Detail: fmt.Sprintf("writer returned an error on call %d of %d but nil was returned to the caller", s.firstFail, s.calls)}
		}
		is, text, pan := inspectErr(res.Err, s.E)
		if pan != "" {
			return &Violation{Class: "error-unusable", Want: R, Got: all,
				Detail: "the returned error is non-nil but panics when it is inspected (Error / errors.Is): " + pan}
		}
		if !is {
			return &Violation{Class: "error-not-wrapped", Want: R, Got: all,
				Detail: fmt.Sprintf("returned error %q neither is nor wraps the writer's error %q", text, clipStr([]byte(s.E.Error()), 300))}
		}
		pre := all[:s.preLen]
		if !bytes.HasPrefix(R, pre) {
			return &Violation{Class: "not-a-prefix", Want: R, Got: pre, Detail: "bytes accepted before the first failure are not a prefix of the fault-free output"}
		}
		if !bytes.HasPrefix(R, all) {
			return &Violation{Class: "write-after-failure", Want: R, Got: all, Detail: "bytes accepted after the first failure leave a hole: all accepted bytes are not a prefix of the fault-free output"}
		}
		if s.plan.Kind != "transient" && s.plan.Kind != "flaky" && len(all) != s.preLen {
			// a fail-stop sink accepts nothing after failing, by construction
			panic("harness: fail-stop sink accepted bytes after failing")
		}
		return nil
	}
	// the sink never failed
	if res.Err != nil {
		return &Violation{Class: "unexpected-error", Want: R, Got: all, Detail: fmt.Sprintf("writer never failed but error %q was returned", res.Err)}
	}
	if !bytes.Equal(all, R) {
		return &Violation{Class: "success-but-incomplete", Want: R, Got: all, Detail: "nil error and writer never failed, but it did not receive exactly the fault-free output"}
	}
	return nil
}
