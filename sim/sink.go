package main

import (
	"bufio"
	"errors"
	"fmt"
	"io"
	"os"
	"strings"
	"syscall"
	"unicode/utf8"

	"github.com/yuin/goldmark/util"
)

// ---- fault plans -----------------------------------------------------------------------

// FaultPlan describes what the destination does wrong. Stored verbatim in replay files.
type FaultPlan struct {
	// short+err zero+err full+err always transient short+nil, and flaky: a SEQUENCE of faults —
	// every sink call fails with probability K percent (decided by a hash of J and the call
	// index, so the sequence is a pure function of the plan), in one of the three shapes
	// (nothing / half / everything accepted, plus the error); calls in between succeed
	Kind  string `json:"kind"`
	K     int    `json:"k,omitempty"`     // total byte offset at which a short+err writer starts to fail
	J     int    `json:"j,omitempty"`     // sink call index (0-based) for call-indexed kinds
	Shape string `json:"shape,omitempty"` // transient: zero | short | full
	// Err: what kind of error value the writer returns. "" plain sentinel; "temporary" and
	// "timeout" implement the net.Error methods; "shortwrite", "eof", "closedpipe", "epipe",
	// "deadline" wrap the corresponding standard-library sentinel (errors.Is finds it). In
	// every case the value is unique to this sink, so errors.Is(returned, E) attributes it.
	Err string `json:"err,omitempty"`
}

var errKinds = []string{"", "temporary", "timeout", "shortwrite", "eof", "closedpipe", "epipe", "deadline", "slice", "mapstruct", "joined", "emptymsg", "hugemsg"}

// Error values of UNCOMPARABLE dynamic types (a slice type, as errors.Join-like aggregates
// are; a struct value with a map field): comparing two of them with == panics, so code that
// compares the error it got with another error value instead of using errors.Is breaks on
// them. errors.Is attributes them through their Is method.
type sliceErr []uint64

func (e sliceErr) Error() string {
	return fmt.Sprintf("simulated writer failure #%d (slice-typed error)", e[0])
}
func (e sliceErr) Is(t error) bool {
	o, ok := t.(sliceErr)
	return ok && len(o) == 1 && len(e) == 1 && o[0] == e[0]
}

type mapStructErr struct {
	id   uint64
	tags map[string]string
}

func (e mapStructErr) Error() string {
	return fmt.Sprintf("simulated writer failure #%d (struct-with-map error)", e.id)
}
func (e mapStructErr) Is(t error) bool {
	o, ok := t.(mapStructErr)
	return ok && o.id == e.id
}

func (p *FaultPlan) String() string {
	if p == nil {
		return "none"
	}
	e := ""
	if p.Err != "" {
		e = ",err=" + p.Err
	}
	switch p.Kind {
	case "short+err":
		return fmt.Sprintf("short+err@k=%d%s", p.K, e)
	case "always":
		return "always" + e
	case "transient":
		return fmt.Sprintf("transient(%s)@j=%d%s", p.Shape, p.J, e)
	case "flaky":
		return fmt.Sprintf("flaky(seed=%d,%d%%)%s", p.J, p.K, e)
	}
	return fmt.Sprintf("%s@j=%d%s", p.Kind, p.J, e)
}

// simErr is the error value a sink returns. A fresh value per sink, so identity attributes
// a returned error to this very fault (errors.Is uses ==).
type simErr struct {
	id   uint64
	kind string
}

func (e *simErr) Error() string {
	switch e.kind {
	case "emptymsg": // an error whose message is empty (still a non-nil error)
		return ""
	case "hugemsg": // ... or very long (a wrapped dump)
		return fmt.Sprintf("simulated writer failure #%d: %s", e.id, strings.Repeat("x", 70000))
	}
	if e.kind != "" {
		return fmt.Sprintf("simulated writer failure #%d (%s)", e.id, e.kind)
	}
	return fmt.Sprintf("simulated writer failure #%d", e.id)
}

// the net.Error methods: code that type-asserts for Temporary()/Timeout() finds them
func (e *simErr) Temporary() bool { return e.kind == "temporary" }
func (e *simErr) Timeout() bool   { return e.kind == "timeout" || e.kind == "deadline" }

func (e *simErr) Unwrap() error {
	switch e.kind {
	case "shortwrite":
		return io.ErrShortWrite
	case "eof":
		return io.EOF
	case "closedpipe":
		return io.ErrClosedPipe
	case "epipe":
		return syscall.EPIPE
	case "deadline":
		return os.ErrDeadlineExceeded
	}
	return nil
}

// Sink is the simulated destination. It records every byte it accepted.
type Sink struct {
	plan *FaultPlan
	E    error

	acc       []byte // everything ever accepted
	calls     int    // Write calls seen
	errCalls  int    // calls that returned E
	firstFail int    // index of the first call that returned E, or -1
	preLen    int    // len(acc) right after the first failing call returned
	stopped   bool   // fail-stop reached
	fired     string // fault kind that actually fired ("" if none)
	shortNil  int    // number of contract-breaking short writes without error
	aux       int    // calls of optional methods of the richer destinations (W1f, W1s, W1b)
	// stack W2p: bytes the caller had written into its own buffered writer before it called
	// goldmark (a page header), and what the sink had seen when goldmark returned
	prefix           []byte
	errCallsAtReturn int
	returned         bool
	// reach probes
	failOnFinalFlush bool // set by the stack wrapper: first failure happened inside the final Flush
	failBeyond4096   bool
	failAtZero       bool
	y                *yielder // sched engine: yield before every sink call (nil elsewhere)
	// stacks W4 / W5: the destination is a caller's util.BufWriter that does NOT remember
	// errors (see passBW, bufBW). judged: its first failure was reported to goldmark where
	// goldmark itself can see it - by a Flush call, or by a write made from a node renderer
	// that looks at the result (the caller's own, see errPropRenderer). Only then do the
	// clauses of C14 apply; a failure reported to a write whose result the built-in node
	// renderers discard is lost by design with such a destination (that is what the sticky
	// error of bufio is relied upon for) and is not judged.
	nonSticky bool
	judged    bool
}

func NewSink(plan *FaultPlan, id uint64) *Sink {
	k := ""
	if plan != nil {
		k = plan.Err
	}
	var e error = &simErr{id, k}
	switch k {
	case "joined":
		// the destination's error is itself a multi-error (a fan-out or mirroring writer that
		// joins the errors of its parts): a value with Unwrap() []error. Code that reduces such
		// errors to "the first cause" loses the writer's error.
		e = errors.Join(&simErr{id, "part 1 of 2"}, &simErr{id, "part 2 of 2"})
	case "slice":
		e = sliceErr{id}
	case "mapstruct":
		e = mapStructErr{id, map[string]string{"op": "write"}}
	}
	return &Sink{plan: plan, E: e, firstFail: -1}
}

func (s *Sink) fail(n int, kind string) (int, error) {
	s.errCalls++
	if s.firstFail < 0 {
		s.firstFail = s.calls - 1
		s.preLen = len(s.acc)
		s.fired = kind
		if len(s.acc) > 4096 {
			s.failBeyond4096 = true
		}
		if len(s.acc) == 0 {
			s.failAtZero = true
		}
	}
	return n, s.E
}

func (s *Sink) Write(p []byte) (int, error) {
	s.y.yield(siteSink)
	idx := s.calls
	s.calls++
	pl := s.plan
	if pl == nil {
		s.acc = append(s.acc, p...)
		return len(p), nil
	}
	if s.stopped {
		return s.fail(0, pl.Kind)
	}
	switch pl.Kind {
	case "always":
		return s.fail(0, "always")
	case "short+err":
		if len(s.acc)+len(p) > pl.K {
			n := pl.K - len(s.acc)
			if n < 0 {
				n = 0
			}
			s.acc = append(s.acc, p[:n]...)
			s.stopped = true
			return s.fail(n, "short+err")
		}
	case "zero+err":
		if idx == pl.J {
			s.stopped = true
			return s.fail(0, "zero+err")
		}
	case "full+err":
		if idx == pl.J {
			s.acc = append(s.acc, p...)
			s.stopped = true
			return s.fail(len(p), "full+err")
		}
	case "transient":
		if idx == pl.J {
			n := 0
			switch pl.Shape {
			case "short":
				n = len(p) / 2
			case "full":
				n = len(p)
			}
			s.acc = append(s.acc, p[:n]...)
			return s.fail(n, "transient")
		}
	case "flaky":
		h := hashU64(uint64(pl.J)*0x9e3779b97f4a7c15+1, uint64(idx))
		if int(h%100) < pl.K {
			n := 0
			switch (h >> 8) % 3 {
			case 1:
				n = len(p) / 2
			case 2:
				n = len(p)
			}
			s.acc = append(s.acc, p[:n]...)
			return s.fail(n, "flaky")
		}
	case "short+nil":
		if idx == pl.J && len(p) > 0 {
			n := len(p) / 2
			s.acc = append(s.acc, p[:n]...)
			s.shortNil++
			if s.fired == "" {
				s.fired = "short+nil"
			}
			return n, nil
		}
	default:
		panic("unknown fault kind " + pl.Kind)
	}
	s.acc = append(s.acc, p...)
	return len(p), nil
}

// ---- writer stacks ---------------------------------------------------------------------

// Stack names: "W1" sink as plain io.Writer (goldmark wraps it in its own bufio.Writer);
// "W2k:<size>" ONE bufio.Writer per caller that lives as long as the caller and receives
// document after document (fault-free calls only; see execOp);
// "W1f"/"W1s"/"W1b" the same with a richer method set (see flushSink, stringSink, bufferSink);
// "W2:<size>" caller-supplied bufio.Writer of that size; "W2p:<size>" the same with a page
// header already pending in it when goldmark is called, flushed by the caller afterwards; "W3" harness unbuffered BufWriter
// with bufio's sticky-error contract: every single renderer write reaches the sink.

type unbuf struct {
	s   *Sink
	err error
	y   *yielder
}

var _ util.BufWriter = (*unbuf)(nil)

func (u *unbuf) put(p []byte) (int, error) {
	if u.err != nil {
		return 0, u.err
	}
	n, err := u.s.Write(p)
	if n < len(p) && err == nil {
		err = io.ErrShortWrite
	}
	if err != nil {
		u.err = err
	}
	return n, err
}
func (u *unbuf) Write(p []byte) (int, error) {
	u.y.yield(siteBufW)
	return u.put(p)
}
func (u *unbuf) WriteString(p string) (int, error) {
	u.y.yield(siteBufW)
	return u.put([]byte(p))
}
func (u *unbuf) WriteByte(c byte) error {
	u.y.yield(siteBufW)
	_, err := u.put([]byte{c})
	return err
}
func (u *unbuf) WriteRune(r rune) (int, error) {
	u.y.yield(siteBufW)
	var b [utf8.UTFMax]byte
	n := utf8.EncodeRune(b[:], r)
	return u.put(b[:n])
}
func (u *unbuf) Available() int { return 4096 }
func (u *unbuf) Buffered() int  { return 0 }
func (u *unbuf) Flush() error {
	u.y.yield(siteBufW)
	return u.err
}

// ---- destinations that do not remember errors (stacks W4, W5) ---------------------------

// checkedMarker is implemented by the non-sticky destinations; a node renderer that looks at
// the results of its writes brackets them with checked(+1) / checked(-1).
type checkedMarker interface{ checked(d int) }

// passBW (stack "W4"): an unbuffered pass-through util.BufWriter. Every write goes to the
// sink and returns the sink's result for THAT call; nothing is remembered; Flush has nothing
// to do and returns nil.
type passBW struct {
	s       *Sink
	y       *yielder
	inCheck int
}

var _ util.BufWriter = (*passBW)(nil)

func (u *passBW) checked(d int) { u.inCheck += d }
func (u *passBW) put(p []byte) (int, error) {
	n, err := u.s.Write(p)
	if n < len(p) && err == nil {
		err = io.ErrShortWrite
	}
	if err != nil && u.s.errCalls == 1 && u.s.firstFail == u.s.calls-1 && u.inCheck > 0 {
		u.s.judged = true
	}
	return n, err
}
func (u *passBW) Write(p []byte) (int, error)       { u.y.yield(siteBufW); return u.put(p) }
func (u *passBW) WriteString(p string) (int, error) { u.y.yield(siteBufW); return u.put([]byte(p)) }
func (u *passBW) WriteByte(c byte) error {
	u.y.yield(siteBufW)
	_, err := u.put([]byte{c})
	return err
}
func (u *passBW) WriteRune(r rune) (int, error) {
	u.y.yield(siteBufW)
	var b [utf8.UTFMax]byte
	n := utf8.EncodeRune(b[:], r)
	return u.put(b[:n])
}
func (u *passBW) Available() int { return 4096 }
func (u *passBW) Buffered() int  { return 0 }
func (u *passBW) Flush() error   { u.y.yield(siteBufW); return nil }

// bufBW (stacks "W5:<size>", "W5d:<size>", "W5p:<size>"): a buffering util.BufWriter of the
// caller's own that does not remember errors. A write that fills the buffer hands it to the
// sink and returns that hand-over's error (to that write only); Flush hands over what is
// pending and returns the error. After a failed hand-over the bytes that were not accepted
// stay pending ("W5", "W5p") or are given up ("W5d"). "W5p": a page header is already pending
// when goldmark is called.
type bufBW struct {
	s       *Sink
	y       *yielder
	buf     []byte
	size    int
	drop    bool
	inCheck int
}

var _ util.BufWriter = (*bufBW)(nil)

func (u *bufBW) checked(d int) { u.inCheck += d }
func (u *bufBW) handOver(fromFlush bool) error {
	if len(u.buf) == 0 {
		return nil
	}
	n, err := u.s.Write(u.buf)
	if n < len(u.buf) && err == nil {
		err = io.ErrShortWrite
	}
	if err != nil && u.s.errCalls == 1 && u.s.firstFail == u.s.calls-1 && (fromFlush || u.inCheck > 0) {
		u.s.judged = true
	}
	if err != nil && u.drop {
		n = len(u.buf)
	}
	u.buf = u.buf[:copy(u.buf, u.buf[n:])]
	return err
}
func (u *bufBW) put(p []byte) (int, error) {
	total := 0
	for len(p) > 0 {
		room := u.size - len(u.buf)
		if room == 0 {
			if err := u.handOver(false); err != nil {
				return total, err
			}
			continue
		}
		if room > len(p) {
			room = len(p)
		}
		u.buf = append(u.buf, p[:room]...)
		p = p[room:]
		total += room
	}
	return total, nil
}
func (u *bufBW) Write(p []byte) (int, error)       { u.y.yield(siteBufW); return u.put(p) }
func (u *bufBW) WriteString(p string) (int, error) { u.y.yield(siteBufW); return u.put([]byte(p)) }
func (u *bufBW) WriteByte(c byte) error {
	u.y.yield(siteBufW)
	_, err := u.put([]byte{c})
	return err
}
func (u *bufBW) WriteRune(r rune) (int, error) {
	u.y.yield(siteBufW)
	var b [utf8.UTFMax]byte
	n := utf8.EncodeRune(b[:], r)
	return u.put(b[:n])
}
func (u *bufBW) Available() int { return u.size - len(u.buf) }
func (u *bufBW) Buffered() int  { return len(u.buf) }
func (u *bufBW) Flush() error   { u.y.yield(siteBufW); return u.handOver(true) }

// yieldingBuf is a caller-supplied bufio.Writer (stack W2) whose every method is a yield
// point in the sched engine. Outside it, the bare *bufio.Writer is used.
type yieldingBuf struct {
	*bufio.Writer
	y *yielder
	s *Sink // W2p only
}

// callerFlush: stack W2p. goldmark has returned; remember what the sink had seen by then,
// and let the caller finish its page and flush its own writer as a real caller would.
func (b yieldingBuf) callerFlush() {
	b.s.errCallsAtReturn, b.s.returned = b.s.errCalls, true
	_ = b.Writer.Flush()
}

func (b yieldingBuf) Write(p []byte) (int, error) { b.y.yield(siteBufW); return b.Writer.Write(p) }
func (b yieldingBuf) WriteString(p string) (int, error) {
	b.y.yield(siteBufW)
	return b.Writer.WriteString(p)
}
func (b yieldingBuf) WriteByte(c byte) error { b.y.yield(siteBufW); return b.Writer.WriteByte(c) }
func (b yieldingBuf) WriteRune(r rune) (int, error) {
	b.y.yield(siteBufW)
	return b.Writer.WriteRune(r)
}
func (b yieldingBuf) Flush() error { b.y.yield(siteBufW); return b.Writer.Flush() }

// Destinations that are not a BufWriter but have a richer method set than io.Writer, as real
// ones do (stacks W1f, W1s, W1b). Code that looks for optional methods on the destination
// (Flush, WriteString, a bytes.Buffer-like set) takes another path for them; every method
// that writes goes through the sink's fault plan as one sink call.

// flushSink: Write + Flush/Sync/Close that report nothing (a gzip.Writer, a tabwriter, an
// *os.File): a failed Write is reported by Write only.
type flushSink struct{ s *Sink }

func (f *flushSink) Write(p []byte) (int, error) { return f.s.Write(p) }
func (f *flushSink) Flush() error                { f.s.aux++; return nil }
func (f *flushSink) Sync() error                 { f.s.aux++; return nil }
func (f *flushSink) Close() error                { f.s.aux++; return nil }

// stringSink: Write + WriteString (io.StringWriter), like *os.File or a strings.Builder wrapper.
type stringSink struct{ s *Sink }

func (f *stringSink) Write(p []byte) (int, error)       { return f.s.Write(p) }
func (f *stringSink) WriteString(p string) (int, error) { f.s.aux++; return f.s.Write([]byte(p)) }

// readFromSink: Write + ReadFrom (io.ReaderFrom), like *os.File or a net.Conn wrapper: code
// that copies with io.Copy, or a bufio.Writer with an empty buffer, hands it a reader.
type readFromSink struct{ s *Sink }

func (f *readFromSink) Write(p []byte) (int, error) { return f.s.Write(p) }
func (f *readFromSink) ReadFrom(r io.Reader) (int64, error) {
	f.s.aux++
	b, rerr := io.ReadAll(r)
	n, err := f.s.Write(b)
	if err == nil {
		err = rerr
	}
	return int64(n), err
}

// bufferSink: the writing side of bytes.Buffer's method set (a size-limited or quota-checking
// buffer that embeds bytes.Buffer looks like this), without Flush/Buffered/Available, so it
// is not a util.BufWriter.
type bufferSink struct{ s *Sink }

func (f *bufferSink) Write(p []byte) (int, error)       { return f.s.Write(p) }
func (f *bufferSink) WriteString(p string) (int, error) { f.s.aux++; return f.s.Write([]byte(p)) }
func (f *bufferSink) WriteByte(c byte) error {
	f.s.aux++
	_, err := f.s.Write([]byte{c})
	return err
}
func (f *bufferSink) WriteRune(r rune) (int, error) {
	f.s.aux++
	var b [utf8.UTFMax]byte
	n := utf8.EncodeRune(b[:], r)
	return f.s.Write(b[:n])
}
func (f *bufferSink) Len() int       { return len(f.s.acc) }
func (f *bufferSink) Cap() int       { return cap(f.s.acc) }
func (f *bufferSink) Grow(n int)     { f.s.aux++ }
func (f *bufferSink) Bytes() []byte  { return f.s.acc }
func (f *bufferSink) String() string { return string(f.s.acc) }

// mkStack returns the io.Writer to hand to goldmark for the named stack.
func mkStack(name string, s *Sink, y *yielder) io.Writer {
	s.y = y
	switch {
	case name == "W1":
		return s
	case name == "W1f":
		return &flushSink{s}
	case name == "W1s":
		return &stringSink{s}
	case name == "W1b":
		return &bufferSink{s}
	case name == "W1r":
		return &readFromSink{s}
	case name == "W3":
		return &unbuf{s: s, y: y}
	case name == "W4":
		s.nonSticky = true
		return &passBW{s: s, y: y}
	case len(name) > 3 && name[:2] == "W5":
		size := 0
		i := strings.IndexByte(name, ':')
		if i < 0 {
			panic("bad stack " + name)
		}
		fmt.Sscanf(name[i+1:], "%d", &size)
		if size <= 0 {
			panic("bad stack " + name)
		}
		s.nonSticky = true
		b := &bufBW{s: s, y: y, size: size, drop: name[:i] == "W5d"}
		if name[:i] == "W5p" {
			s.prefix = []byte("<!-- page head -->\n")
			_, _ = b.put(s.prefix)
		}
		return b
	case len(name) > 4 && name[:4] == "W2p:":
		// the caller is assembling a page in its own bufio.Writer: a header is already pending
		// in the buffer when goldmark is called
		size := 0
		fmt.Sscanf(name[4:], "%d", &size)
		if size <= 0 {
			panic("bad stack " + name)
		}
		s.prefix = []byte("<!-- page head -->\n")
		bw := bufio.NewWriterSize(s, size)
		_, _ = bw.Write(s.prefix)
		return yieldingBuf{bw, y, s}
	case len(name) > 3 && name[:3] == "W2:":
		size := 0
		fmt.Sscanf(name[3:], "%d", &size)
		if size <= 0 {
			panic("bad stack " + name)
		}
		bw := bufio.NewWriterSize(s, size)
		if y != nil {
			return yieldingBuf{bw, y, nil}
		}
		return bw
	}
	panic("bad stack " + name)
}

var w2Sizes = []int{16, 17, 64, 4096, 65536}

func genStack(r *Rng) string {
	switch r.Intn(3) {
	case 0:
		if g := NewRng(r.Next()); g.Chance(1, 4) {
			return pick(g, []string{"W1f", "W1s", "W1b", "W1r"})
		}
		return "W1"
	case 1:
		if g := NewRng(r.Next()); g.Chance(1, 4) {
			return fmt.Sprintf("W2p:%d", pick(r, w2Sizes))
		} else if g.Chance(1, 3) {
			return fmt.Sprintf("W2k:%d", pick(r, []int{64, 4096}))
		}
		return fmt.Sprintf("W2:%d", pick(r, w2Sizes))
	}
	if g := NewRng(r.Next()); g.Chance(1, 4) {
		// a caller's BufWriter that does not remember errors
		return pick(g, []string{"W4", "W4", fmt.Sprintf("W5:%d", pick(g, []int{16, 64, 4096})), fmt.Sprintf("W5d:%d", pick(g, []int{16, 64})), fmt.Sprintf("W5p:%d", pick(g, []int{16, 64, 4096}))})
	}
	return "W3"
}
