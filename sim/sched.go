package main

import (
	"bytes"
	"encoding/binary"
	"errors"
	"fmt"
	"os"
	"reflect"
	"runtime"
	"strconv"
	"strings"
	"sync"
	"syscall"
	"time"
	"unsafe"

	"github.com/yuin/goldmark/parser"
	"github.com/yuin/goldmark/renderer"
	"github.com/yuin/goldmark/text"
	"github.com/yuin/goldmark/util"
)

// Engine sched — decides C07. Real goroutines, parked and released one at a time; who
// runs next is decided by the simulator (seeded policy or an explicit decision list),
// never by the Go runtime.
//
// The hand-off is invisible to the race detector on purpose: park/unpark are raw
// read/write system calls on pipes. No channel, mutex or atomic is touched by harness code
// between the start barrier and the join, so the only happens-before edges the detector
// sees are goldmark's own. An unsynchronised conflicting access in goldmark is therefore
// reported although the execution is completely serialised and replayable.

type gate struct{ r, w int }

func newGate() *gate {
	var p [2]int
	if err := syscall.Pipe(p[:]); err != nil {
		panic(err)
	}
	return &gate{p[0], p[1]}
}

func (g *gate) close() { syscall.Close(g.r); syscall.Close(g.w) }

func rawRead(fd int, b []byte) {
	off := 0
	for off < len(b) {
		n, _, e := syscall.Syscall(syscall.SYS_READ, uintptr(fd), uintptr(unsafe.Pointer(&b[off])), uintptr(len(b)-off))
		if e == syscall.EINTR {
			continue
		}
		if e != 0 || n == 0 {
			panic("harness: rawRead failed: " + e.Error())
		}
		off += int(n)
	}
}

func rawWrite(fd int, b []byte) {
	for {
		n, _, e := syscall.Syscall(syscall.SYS_WRITE, uintptr(fd), uintptr(unsafe.Pointer(&b[0])), uintptr(len(b)))
		if e == syscall.EINTR {
			continue
		}
		if e != 0 || int(n) != len(b) {
			panic("harness: rawWrite failed: " + e.Error())
		}
		return
	}
}

type pollFd struct {
	fd      int32
	events  int16
	revents int16
}

// waitReadable: true if fd becomes readable within ms milliseconds.
func waitReadable(fd int, ms int) bool {
	p := pollFd{fd: int32(fd), events: 1 /*POLLIN*/}
	for {
		n, _, e := syscall.Syscall(syscall.SYS_POLL, uintptr(unsafe.Pointer(&p)), 1, uintptr(ms))
		if e == syscall.EINTR {
			continue
		}
		if e != 0 {
			panic("harness: poll failed: " + e.Error())
		}
		return n > 0
	}
}

const (
	evYield = iota
	evDone
	evOnceBlocked
)

const evSize = 8

type worker struct {
	id   int
	wake *gate
	sim  *simState
	goid uint64
}

type simState struct {
	central *gate
	workers []*worker
	byGoid  map[uint64]*worker
}

func goid() uint64 {
	var buf [64]byte
	n := runtime.Stack(buf[:], false)
	s := buf[len("goroutine "):n]
	i := bytes.IndexByte(s, ' ')
	v, _ := strconv.ParseUint(string(s[:i]), 10, 64)
	return v
}

func (w *worker) send(kind byte, site uint16) {
	var m [evSize]byte
	m[0] = byte(w.id)
	m[1] = kind
	binary.LittleEndian.PutUint16(m[2:], site)
	rawWrite(w.sim.central.w, m[:])
}

func (w *worker) park() {
	var b [1]byte
	rawRead(w.wake.r, b[:])
}

func (w *worker) yield(site uint16) {
	w.send(evYield, site)
	w.park()
}

// ---- sync.Once introspection ------------------------------------------------------------

var onceMuOff = func() uintptr {
	f, ok := reflect.TypeOf(sync.Once{}).FieldByName("m")
	if !ok {
		return ^uintptr(0)
	}
	return f.Offset
}()

// onceHeld: is somebody inside once.Do right now? A plain load of the mutex state word,
// invisible to the race detector. Deliberately not TryLock, which would add an acquire
// edge that could hide a racy fast path in a broken variant.
//
//go:norace
func onceHeld(o *sync.Once) bool {
	if o == nil {
		return false
	}
	st := (*int32)(unsafe.Add(unsafe.Pointer(o), onceMuOff))
	return *st&1 != 0
}

// onceSelfTest validates the layout assumption; a failure is harness trouble (exit 2).
func onceSelfTest() error {
	if onceMuOff == ^uintptr(0) {
		return errors.New("sync.Once has no field m")
	}
	var o sync.Once
	if onceHeld(&o) {
		return errors.New("idle Once reads as held")
	}
	in, out := make(chan struct{}), make(chan struct{})
	go o.Do(func() { close(in); <-out })
	<-in
	held := onceHeld(&o)
	close(out)
	if !held {
		return errors.New("Once inside Do reads as not held")
	}
	for i := 0; i < 1000 && onceHeld(&o); i++ {
		time.Sleep(time.Millisecond)
	}
	if onceHeld(&o) {
		return errors.New("Once after Do reads as held")
	}
	return nil
}

// ---- deciders ----------------------------------------------------------------------------

type lastEvent struct {
	worker int
	kind   byte
	site   uint16
}

type decider interface {
	choose(step int, cand []int, last lastEvent) int
}

func contains(xs []int, x int) bool {
	for _, y := range xs {
		if y == x {
			return true
		}
	}
	return false
}

// default rule: keep running the current worker if it can run, else the lowest id.
func defaultChoice(cand []int, last lastEvent) int {
	if last.worker >= 0 && contains(cand, last.worker) {
		return last.worker
	}
	return cand[0]
}

type listDecider struct{ d []int16 }

func (l *listDecider) choose(step int, cand []int, last lastEvent) int {
	if step < len(l.d) && l.d[step] >= 0 && contains(cand, int(l.d[step])) {
		return int(l.d[step])
	}
	return defaultChoice(cand, last)
}

type policyDecider struct {
	policy  string
	arg     int
	r       *Rng
	n       int
	prio    []int
	change  map[int]bool
	quantum int
	reached []bool
	herding bool
}

func newPolicyDecider(policy string, arg int, seed uint64, n int) *policyDecider {
	p := &policyDecider{policy: policy, arg: arg, r: NewRng(seed), n: n}
	switch policy {
	case "pct":
		p.prio = make([]int, n)
		for i := range p.prio {
			p.prio[i] = i + 1
		}
		for i := n - 1; i > 0; i-- {
			j := p.r.Intn(i + 1)
			p.prio[i], p.prio[j] = p.prio[j], p.prio[i]
		}
		p.change = map[int]bool{}
		span := 120 * n
		if deepBuild {
			span = 1500 * n
		}
		for i := 0; i < arg; i++ {
			p.change[p.r.Intn(span)] = true
		}
	case "herd":
		p.reached = make([]bool, n)
		p.herding = true
	}
	return p
}

func (p *policyDecider) choose(step int, cand []int, last lastEvent) int {
	switch p.policy {
	case "random":
		return cand[p.r.Intn(len(cand))]
	case "pct":
		if p.change[step] && last.worker >= 0 {
			p.prio[last.worker] = -step // lowest so far
		}
		best := cand[0]
		for _, c := range cand {
			if p.prio[c] > p.prio[best] {
				best = c
			}
		}
		return best
	case "rr":
		if last.worker >= 0 && contains(cand, last.worker) && p.quantum < p.arg {
			p.quantum++
			return last.worker
		}
		p.quantum = 1
		for _, c := range cand {
			if c > last.worker {
				return c
			}
		}
		return cand[0]
	case "rtb":
		if last.worker >= 0 && contains(cand, last.worker) && !isHookSite(last.site) {
			return last.worker
		}
		return cand[p.r.Intn(len(cand))]
	case "syncsw":
		// keep running the current worker; right before / after a critical section, an atomic
		// operation or a Once (where correctly locked but logically wrong sharing shows: a
		// handle, an index or half of a pair carried from one critical section into the next)
		// switch to another worker with probability 1/arg and let THAT one run on
		if last.worker >= 0 && contains(cand, last.worker) {
			if !isSyncSite(last.site) || len(cand) == 1 || p.r.Intn(p.arg) != 0 {
				return last.worker
			}
			for {
				if c := cand[p.r.Intn(len(cand))]; c != last.worker {
					return c
				}
			}
		}
		return cand[p.r.Intn(len(cand))]
	case "herd":
		if p.herding {
			if last.worker >= 0 && last.kind == evYield && isInitEnter(last.site) && hookOnceIdx(last.site) < 2 {
				p.reached[last.worker] = true
			}
			for _, c := range cand {
				if !p.reached[c] {
					return c
				}
			}
			p.herding = false
		}
		return cand[p.r.Intn(len(cand))]
	}
	panic("unknown policy " + p.policy)
}

// ---- running one schedule -----------------------------------------------------------------

const (
	wsParked = iota
	wsRunning
	wsOnceBlocked
	wsRealBlocked
	wsDone
)

type schedOutcome struct {
	results   [][]OpResult
	decisions []int16
	steps     int
	evHash    uint64
	evLog     []byte // only when wanted
	deadlock  string
	trouble   string
	// probes
	onceContended  int
	onceBlocked    int
	realBlocked    int
	gcs, gcDone    int
	stallFired     bool // a worker's destination really stalled (it reached that sink call while others were unfinished)
	stallReleased  bool // ... and was let go after every other worker had finished
	preemptions    int
	midInitSwitch  int
	pairSet        map[uint32]struct{}
	phaseOverlap   map[string]int
	sitesPreempted map[uint16]int
}

var wantEventLog = os.Getenv("VERIF_EVENTLOG") != ""

func goroutineStates() map[uint64]string {
	buf := make([]byte, 1<<20)
	n := runtime.Stack(buf, true)
	out := map[uint64]string{}
	for _, blk := range strings.Split(string(buf[:n]), "\n\n") {
		if !strings.HasPrefix(blk, "goroutine ") {
			continue
		}
		rest := blk[len("goroutine "):]
		sp := strings.IndexByte(rest, ' ')
		if sp < 0 {
			continue
		}
		id, err := strconv.ParseUint(rest[:sp], 10, 64)
		if err != nil {
			continue
		}
		lb, rb := strings.IndexByte(rest, '['), strings.IndexByte(rest, ']')
		if lb < 0 || rb < lb {
			continue
		}
		out[id] = rest[lb+1 : rb]
	}
	return out
}

func isSyncBlockedState(s string) bool {
	for _, p := range []string{"sync.Mutex.Lock", "sync.RWMutex", "semacquire", "sync.Cond.Wait", "chan receive", "chan send", "select", "sync.WaitGroup.Wait"} {
		if strings.HasPrefix(s, p) {
			return true
		}
	}
	return false
}

func phaseOf(site uint16) string {
	switch {
	case site >= siteDeepBase:
		return "inside"
	case site == siteSink || site == siteBufW:
		return "render"
	case isHookSite(site):
		return "init"
	case site == siteStart || site == siteOpBoundary:
		return "idle"
	}
	return "parse"
}

// runSchedule executes the clients' scripts on env under dec. trees[i] is client i's
// private tree pool (pre-filled for RenderPre operations).
func runSchedule(env *Env, clients [][]Op, trees []map[int]*treeHandle, dec decider, gcAt []int, stall *StallPlan) *schedOutcome {
	n := len(clients)
	out := &schedOutcome{results: make([][]OpResult, n), pairSet: map[uint32]struct{}{}, phaseOverlap: map[string]int{}, sitesPreempted: map[uint16]int{}}
	s := &simState{central: newGate(), byGoid: map[uint64]*worker{}}
	defer func() {
		if out.deadlock != "" || out.trouble != "" {
			return // goroutines may still be parked on these descriptors; leak them
		}
		s.central.close()
		for _, w := range s.workers {
			w.wake.close()
		}
	}()
	type reg struct {
		w    *worker
		goid uint64
	}
	regc := make(chan reg, n)
	startc := make(chan struct{})
	var wg sync.WaitGroup
	for i := 0; i < n; i++ {
		w := &worker{id: i, wake: newGate(), sim: s}
		s.workers = append(s.workers, w)
		out.results[i] = make([]OpResult, len(clients[i]))
		wg.Add(1)
		go func(i int, w *worker) {
			defer wg.Done()
			regc <- reg{w, goid()}
			<-startc
			// ---- simulated phase: no Go synchronisation below this line ----
			w.park()
			y := &yielder{w}
			for k, op := range clients[i] {
				if k > 0 {
					w.yield(siteOpBoundary)
				}
				out.results[i][k] = execOp(env, trees[i], i, k, op, y)
			}
			w.send(evDone, 0)
		}(i, w)
	}
	for i := 0; i < n; i++ {
		x := <-regc
		x.w.goid = x.goid
		s.byGoid[x.goid] = x.w
	}
	hook := func(site string, once *sync.Once) {
		w := s.byGoid[goid()]
		if w == nil {
			return
		}
		id, ok := hookSiteID(site)
		if !ok {
			return
		}
		// yield first, then look at the Once with no yield in between: a worker that passes
		// the check enters Do before anybody else can run.
		w.yield(id)
		if isInitEnter(id) {
			for onceHeld(once) {
				w.send(evOnceBlocked, id)
				w.park()
			}
		}
	}
	parser.SimHook, renderer.SimHook, util.SimHook = hook, hook, hook
	installDeep(func(id uint32) {
		if w := s.byGoid[goid()]; w != nil {
			w.yield(siteDeepBase + uint16(id))
		}
	})
	close(startc)

	state := make([]int, n)
	lastSite := make([]uint16, n) // where each worker is parked
	insideInit := make([]bool, n)
	alive := n
	last := lastEvent{worker: -1}
	h := uint64(0xcbf29ce484222325)
	var m [evSize]byte
	unblockTried := -1
	watchdog := 0
	allBlockedPolls := 0
	// stalled destination (fault kind "stall"): worker stalled is parked inside a sink call and
	// is not released while any other worker is unfinished
	sinkCalls := make([]int, n)
	stalled := -1
	othersUnfinished := func(g int) bool {
		for i := 0; i < n; i++ {
			if i != g && state[i] != wsDone {
				return true
			}
		}
		return false
	}
	for alive > 0 {
		if stalled >= 0 && !othersUnfinished(stalled) {
			stalled = -1 // everybody else is done: the destination accepts again
			out.stallReleased = true
		}
		// A worker that blocked inside a synchronisation primitive of the code under test (one
		// the simulator has no seam for) is woken by the Go runtime, not by the scheduler, as
		// soon as whoever ran since released the primitive. Such a worker is running again:
		// wait for its next event before releasing anybody else, so that still at most one
		// worker runs between two scheduling points.
		nReal := 0
		for i := 0; i < n; i++ {
			if state[i] == wsRealBlocked {
				nReal++
			}
		}
		if nReal > 0 {
			sts := goroutineStates()
			for i := 0; i < n; i++ {
				if state[i] == wsRealBlocked && !isSyncBlockedState(sts[s.workers[i].goid]) {
					state[i] = wsRunning
				}
			}
		}
		running := 0
		for i := 0; i < n; i++ {
			if state[i] == wsRunning {
				running++
			}
		}
		if running == 0 {
			var cand []int
			for i := 0; i < n; i++ {
				if state[i] == wsParked && i != stalled {
					cand = append(cand, i)
				}
			}
			if len(cand) == 0 {
				onceB := false
				for i := 0; i < n; i++ {
					if state[i] == wsOnceBlocked {
						onceB = true
					}
				}
				if onceB && unblockTried != out.steps {
					unblockTried = out.steps
					for i := 0; i < n; i++ {
						if state[i] == wsOnceBlocked {
							state[i] = wsParked
						}
					}
					continue
				}
				var who []string
				for i := 0; i < n; i++ {
					if state[i] != wsDone {
						who = append(who, fmt.Sprintf("worker %d (%s at %s)", i, []string{"parked", "running", "waiting for a held Once", "blocked in a sync primitive", "done"}[state[i]], siteName(lastSite[i])))
					}
				}
				if nReal > 0 {
					// workers blocked inside a synchronisation primitive remain: whether that is a
					// deadlock is decided below, with positive evidence that persists
					goto wait
				}
				out.deadlock = "no worker can make progress: " + strings.Join(who, "; ")
				break
			}
			if contains(gcAt, out.steps) && out.gcDone != out.steps+1 {
				// environment event: garbage collection while every worker is parked
				out.gcDone = out.steps + 1
				out.gcs++
				runtime.GC()
				runtime.GC()
			}
			g := dec.choose(out.steps, cand, last)
			if !contains(cand, g) {
				g = cand[0]
			}
			out.decisions = append(out.decisions, int16(g))
			// probes: preemption = switching away from a worker that could have continued
			if last.worker >= 0 && last.worker != g && state[last.worker] == wsParked {
				out.preemptions++
				out.sitesPreempted[last.site]++
				out.pairSet[uint32(last.site)<<16|uint32(lastSite[g])] = struct{}{}
				pa, pb := phaseOf(last.site), phaseOf(lastSite[g])
				if pa > pb {
					pa, pb = pb, pa
				}
				out.phaseOverlap[pa+"|"+pb]++
				if insideInit[last.worker] {
					out.midInitSwitch++
				}
			}
			state[g] = wsRunning
			rawWrite(s.workers[g].wake.w, []byte{1})
		}
	wait:
		if !waitReadable(s.central.r, 100) {
			// nobody reported within the grace period: is a released worker parked inside a
			// synchronisation primitive (one the simulator has no seam for)?
			sts := goroutineStates()
			for i := 0; i < n; i++ {
				if state[i] == wsRunning && isSyncBlockedState(sts[s.workers[i].goid]) {
					state[i] = wsRealBlocked
					out.realBlocked++
				}
			}
			someoneRunning, someoneSchedulable := false, false
			for i := 0; i < n; i++ {
				switch state[i] {
				case wsRunning:
					someoneRunning = true
				case wsParked, wsOnceBlocked:
					if i != stalled {
						someoneSchedulable = true
					}
				case wsRealBlocked:
					if !isSyncBlockedState(sts[s.workers[i].goid]) {
						someoneRunning = true // woken by the runtime; picked up at the top of the loop
					}
				}
			}
			switch {
			case someoneRunning:
				watchdog++
				if watchdog > 600 { // 60 s of a worker that is running but silent
					out.trouble = "watchdog: a released worker neither yielded nor finished within 60 s"
				}
			case someoneSchedulable:
				// the top of the loop releases one of them
			default:
				// every unfinished worker is parked by the Go runtime inside a synchronisation
				// primitive and nobody is left who could release it. Must persist: a worker that
				// waits for a helper goroutine of the code under test is blocked only until that
				// goroutine gets to run.
				allBlockedPolls++
				if allBlockedPolls >= 8 {
					out.deadlock = "all unfinished workers are blocked inside synchronisation primitives"
					if stalled >= 0 {
						out.deadlock = fmt.Sprintf("worker %d's destination has stalled (it accepts no more bytes) and every other unfinished worker is blocked inside a synchronisation primitive: calls on a shared instance wait for a neighbour's destination", stalled)
					}
				}
			}
			if out.trouble != "" || out.deadlock != "" {
				break
			}
			continue
		}
		watchdog = 0
		allBlockedPolls = 0
		rawRead(s.central.r, m[:])
		g := int(m[0])
		if g >= n || (state[g] != wsRunning && state[g] != wsRealBlocked) {
			out.trouble = fmt.Sprintf("event from worker %d in state %d", g, state[g])
			break
		}
		out.steps++
		site := binary.LittleEndian.Uint16(m[2:])
		h = hashU64(h, uint64(m[0])|uint64(m[1])<<8|uint64(site)<<16)
		if wantEventLog {
			out.evLog = append(out.evLog, m[:4]...)
		}
		last = lastEvent{worker: g, kind: m[1], site: site}
		lastSite[g] = site
		switch m[1] {
		case evDone:
			state[g] = wsDone
			alive--
			for i := 0; i < n; i++ {
				if state[i] == wsOnceBlocked {
					state[i] = wsParked
				}
			}
		case evOnceBlocked:
			state[g] = wsOnceBlocked
			out.onceBlocked++
		case evYield:
			state[g] = wsParked
			if site == siteSink {
				sinkCalls[g]++
				if stall != nil && stalled < 0 && !out.stallFired && g == stall.Worker && sinkCalls[g] > stall.After && othersUnfinished(g) {
					stalled = g
					out.stallFired = true
				}
			}
			if isHookSite(site) {
				switch hookPhase(site) {
				case 0:
					for i := 0; i < n; i++ {
						if i != g && insideInit[i] && hookOnceIdx(lastSite[i]) == hookOnceIdx(site) {
							out.onceContended++
						}
					}
				case 1:
					insideInit[g] = true
				case 2:
					// still inside until Do returns
				case 3:
					insideInit[g] = false
					for i := 0; i < n; i++ {
						if state[i] == wsOnceBlocked {
							state[i] = wsParked
						}
					}
				}
			}
		}
	}
	if out.deadlock == "" && out.trouble == "" {
		wg.Wait()
	}
	parser.SimHook, renderer.SimHook, util.SimHook = nil, nil, nil
	installDeep(nil)
	out.evHash = h
	return out
}

// ---- race log -----------------------------------------------------------------------------

var raceLogPath = func() string {
	for _, kv := range strings.Fields(os.Getenv("GORACE")) {
		if strings.HasPrefix(kv, "log_path=") {
			return strings.TrimPrefix(kv, "log_path=") + "." + strconv.Itoa(os.Getpid())
		}
	}
	return ""
}()

var raceLogOff int64

// newRaceReports returns race reports written since the last call.
func newRaceReports() string {
	if raceLogPath == "" {
		return ""
	}
	fi, err := os.Stat(raceLogPath)
	if err != nil || fi.Size() <= raceLogOff {
		return ""
	}
	f, err := os.Open(raceLogPath)
	if err != nil {
		return ""
	}
	defer f.Close()
	buf := make([]byte, fi.Size()-raceLogOff)
	n, _ := f.ReadAt(buf, raceLogOff)
	raceLogOff += int64(n)
	return string(buf[:n])
}

// classifyRace: "goldmark" when the racing accesses belong to goldmark (or to code it
// calls); "harness" when the first non-runtime frame of either access is harness code.
func classifyRace(report string) string {
	lines := strings.Split(report, "\n")
	accesses, harness := 0, 0
	for i := 0; i < len(lines); i++ {
		l := strings.TrimSpace(lines[i])
		isAccess := (strings.HasPrefix(l, "Write at ") || strings.HasPrefix(l, "Read at ") || strings.HasPrefix(l, "Previous write at ") || strings.HasPrefix(l, "Previous read at ") ||
			strings.HasPrefix(l, "Atomic write at ") || strings.HasPrefix(l, "Atomic read at ") || strings.HasPrefix(l, "Previous atomic ")) && strings.Contains(l, "by ")
		if !isAccess {
			continue
		}
		accesses++
		for j := i + 1; j < len(lines); j++ {
			f := strings.TrimSpace(lines[j])
			if f == "" {
				break
			}
			if strings.HasPrefix(f, "/") || strings.HasPrefix(f, "runtime.") || strings.HasPrefix(f, "internal/") {
				continue // file:line lines and runtime frames
			}
			if strings.HasPrefix(f, "main.") {
				harness++
			}
			break
		}
	}
	// Harness trouble only when every racing access is made by harness code itself. An
	// access by harness code to memory goldmark handed to it (the bytes passed to the
	// writer) racing with an access made by goldmark is goldmark's race.
	if accesses == 0 || harness == accesses {
		return "harness"
	}
	return "goldmark"
}

// ---- engine entry --------------------------------------------------------------------------

func errClass(err error, s *Sink) string {
	if err == nil {
		return "nil"
	}
	var target error
	if s != nil {
		target = s.E
	}
	is, text, pan := inspectErr(err, target)
	switch {
	case pan != "":
		return "unusable (panics when inspected): " + pan
	case s != nil && is:
		return "writer-error"
	}
	return "other:" + text
}

func execSched(spec *RunSpec, st *Stats) *Violation {
	n := len(spec.Clients)
	if n == 0 {
		return nil
	}
	if spec.Deep != deepBuild {
		if st != nil {
			st.Trouble = append(st.Trouble, fmt.Sprintf("this run was recorded with deep=%v but this binary is built with deep=%v (./check replay builds the right one)", spec.Deep, deepBuild))
		}
		return nil
	}
	// expected results: each operation alone on a fresh instance (not for cold-start runs,
	// where the reference must not perform the process's first use)
	type exp struct {
		out  []byte
		errc string
		skip bool
	}
	expect := make([][]exp, n)
	// what the callers asked to convert; the reference is always asked about these bytes
	pristine := make([][]byte, len(spec.Docs))
	for i, d := range spec.Docs {
		pristine[i] = append(make([]byte, 0, len(d)+16), d...)
	}
	soloDocs := func() [][]byte {
		out := make([][]byte, len(pristine))
		for i, d := range pristine {
			out[i] = append(make([]byte, 0, len(d)+16), d...)
		}
		return out
	}
	computeExpect := func() {
		for i, ops := range spec.Clients {
			expect[i] = make([]exp, len(ops))
			for k, op := range ops {
				cfg := spec.Cfg
				if op.Kind == "PkgConvert" {
					cfg = Config{}
				}
				if op.Kind == "AuxConvert" {
					cfg = *op.Aux
				}
				if op.Fault == nil {
					ref := refModel.Get(cfg, pristine[op.Doc])
					if ref.out == nil {
						expect[i][k] = exp{skip: true}
					} else {
						expect[i][k] = exp{out: ref.out, errc: "nil"}
					}
					continue
				}
				solo := op
				solo.Ctx, solo.Reader = false, false
				var res OpResult
				if op.Kind == "RenderPre" {
					env := newEnv(cfg, soloDocs())
					tr := map[int]*treeHandle{op.Tree: {node: env.p.Parse(text.NewReader(env.docs[op.Doc])), doc: op.Doc}}
					res = execOp(env, tr, 0, 0, solo, nil)
				} else {
					res = runSolo(cfg, soloDocs(), solo)
				}
				if res.Panic != "" {
					expect[i][k] = exp{skip: true}
					continue
				}
				expect[i][k] = exp{out: res.Out, errc: errClass(res.Err, res.Sink)}
			}
		}
	}
	for _, ops := range spec.Clients {
		for _, op := range ops {
			if op.Doc < 0 || op.Doc >= len(spec.Docs) || op.Kind == "AuxConvert" && op.Aux == nil {
				return nil // malformed candidate produced by shrinking
			}
		}
	}
	if !spec.Cold && !spec.RefAfter {
		computeExpect()
	}
	env := newEnv(spec.Cfg, spec.Docs)
	if !spec.Fresh && !spec.Cold {
		// pre-warmed instance: first use already happened, sequentially
		var b bytes.Buffer
		_ = env.md.Convert([]byte("warm *up* &amp;\n"), &b)
	}
	trees := make([]map[int]*treeHandle, n)
	for i, ops := range spec.Clients {
		trees[i] = map[int]*treeHandle{}
		for _, op := range ops {
			if op.Kind == "RenderPre" {
				p := spec.Cfg.Build().Parser() // a different instance: the shared renderer's first use stays with the workers
				trees[i][op.Tree] = &treeHandle{node: p.Parse(text.NewReader(spec.Docs[op.Doc])), doc: op.Doc}
			}
		}
	}
	var dec decider
	if spec.Decisions != nil {
		dec = &listDecider{spec.Decisions}
	} else {
		dec = newPolicyDecider(spec.Policy, spec.PolicyArg, spec.SchedSeed, n)
	}
	_ = newRaceReports() // anything printed before this run is not this run's
	out := runSchedule(env, spec.Clients, trees, dec, spec.GCAt, spec.Stall)
	race := newRaceReports()
	if spec.Decisions == nil {
		spec.Decisions = out.decisions
	}
	spec.EventsSha = fmt.Sprintf("%016x", out.evHash)
	if st != nil {
		st.Add("steps", int64(out.steps))
		st.Add("probe.once_contended", int64(out.onceContended))
		st.Add("probe.once_blocked", int64(out.onceBlocked))
		st.Add("probe.unmodelled_block", int64(out.realBlocked))
		st.Add("probe.preemptions", int64(out.preemptions))
		st.Add("probe.mid_init_switch", int64(out.midInitSwitch))
		st.Add("fired.gc", int64(out.gcs))
		if out.stallFired {
			st.Inc("fired.stall")
		}
		if out.stallReleased {
			st.Inc("probe.stalled_worker_released_after_all_others_finished")
		}
		for k, v := range out.phaseOverlap {
			st.Add("overlap."+k, int64(v))
		}
		for k := range out.pairSet {
			st.Inc(fmt.Sprintf("pair.%s>%s", siteName(uint16(k>>16)), siteName(uint16(k&0xffff))))
		}
		if out.preemptions > 0 {
			st.Distinct(hashU64(hashU64(out.evHash, hashStr(spec.Cfg.Key())), uint64(spec.docBytes())))
		}
		if wantEventLog {
			appendEventLog(spec, out)
		}
	}
	if out.trouble != "" {
		if st != nil {
			st.Trouble = append(st.Trouble, fmt.Sprintf("run %d: %s", spec.Run, out.trouble))
		}
		return nil
	}
	if out.deadlock != "" {
		return &Violation{Class: "deadlock", Client: -1, Op: -1, Detail: out.deadlock, Race: race}
	}
	if spec.Cold || spec.RefAfter {
		computeExpect()
	}
	// oracles
	for i, rs := range out.results {
		for k, res := range rs {
			if res.Panic != "" {
				if expect[i][k].skip {
					// the same call panics when run alone on a fresh instance: an input the library
					// cannot handle is C01's subject (totality), not a consequence of sharing
					if st != nil {
						st.Inc("diag.panic_also_alone")
					}
					continue
				}
				return &Violation{Class: "panic", Client: i, Op: k, Detail: "panic in a worker: " + firstLine(res.Panic), Race: race}
			}
		}
	}
	if spec.Property == "C14" {
		// C14 under concurrent use: every faulted call on the shared instance obeys the clauses
		// of C14 (its own writer's error, its own prefix) while the neighbours' destinations
		// fail or succeed independently; fault-free calls are the control. Data races are C07's.
		for i, rs := range out.results {
			for k, res := range rs {
				op := spec.Clients[i][k]
				if res.Skipped || res.Sink == nil || expect[i][k].skip {
					continue
				}
				cfg := spec.Cfg
				if op.Kind == "PkgConvert" {
					cfg = Config{}
				}
				if op.Kind == "AuxConvert" {
					cfg = *op.Aux
				}
				ref := refModel.Get(cfg, pristine[op.Doc])
				if ref.out == nil {
					continue
				}
				if st != nil {
					st.Inc("sched.c14_ops_judged")
					if op.Fault != nil && res.Sink.fired != "" {
						st.Inc("fired." + res.Sink.fired)
						st.Inc("sched.c14_faults_fired")
					}
				}
				if op.Fault == nil {
					// control: a fault-free call (also those writing into a long-lived destination,
					// whose sink holds earlier documents too) delivers exactly the fault-free output
					if res.Err != nil || !bytes.Equal(res.Out, ref.out) {
						return &Violation{Class: "success-but-incomplete", Client: i, Op: k, Want: ref.out, Got: res.Out, Race: race,
							Detail: fmt.Sprintf("fault-free call next to failing neighbours returned err=%v and delivered %d bytes, alone %d bytes", res.Err, len(res.Out), len(ref.out))}
					}
					continue
				}
				r := res
				if v := checkFaulted(&r, ref.out); v != nil {
					v.Client, v.Op, v.Race = i, k, race
					return v
				}
			}
		}
		return nil
	}
	if spec.Property == "C15" {
		// Only heading ids are judged here: every heading of every document converted under
		// this schedule carries the ids it gets alone. Other differences and data races are
		// C07's business.
		if !spec.Cfg.C15Applies() {
			return nil
		}
		for i, rs := range out.results {
			for k, res := range rs {
				e := expect[i][k]
				op := spec.Clients[i][k]
				if e.skip || res.Skipped || op.Fault != nil {
					continue
				}
				got := res.Out
				if op.Kind == "ParseOnly" {
					var b bytes.Buffer
					if err := spec.Cfg.Build().Renderer().Render(&b, pristine[op.Doc], res.Tree.node); err != nil {
						continue
					}
					got = b.Bytes()
				}
				if st != nil {
					st.Inc("sched.c15_ops_judged")
				}
				if bytes.Equal(got, e.out) {
					continue
				}
				ids, v := headingIDs(got)
				if v != nil {
					v.Client, v.Op = i, k
					return v
				}
				want, _ := headingIDs(e.out)
				if !sameIDs(ids, want) {
					return &Violation{Class: "id-schedule-dependent", Client: i, Op: k, Want: e.out, Got: got,
						Detail: fmt.Sprintf("heading ids %q under this schedule on a shared instance, %q when the document is converted alone", ids, want)}
				}
			}
		}
		return nil
	}
	for i, rs := range out.results {
		for k, res := range rs {
			e := expect[i][k]
			op := spec.Clients[i][k]
			if e.skip || res.Skipped {
				continue
			}
			if st != nil {
				st.Inc("checked_ops")
				st.Inc("op." + op.Kind)
				if op.Fault != nil && res.Sink != nil && res.Sink.fired != "" {
					st.Inc("fired." + res.Sink.fired)
				}
			}
			if op.Kind == "ParseOnly" {
				var b bytes.Buffer
				err := spec.Cfg.Build().Renderer().Render(&b, spec.Docs[op.Doc], res.Tree.node)
				if err != nil || !bytes.Equal(b.Bytes(), e.out) {
					return &Violation{Class: "isolation", Client: i, Op: k, Want: e.out, Got: b.Bytes(), Race: race,
						Detail: "tree parsed on the shared Parser under this schedule renders differently from the tree parsed alone"}
				}
				continue
			}
			got := errClass(res.Err, res.Sink)
			if got != e.errc || !bytes.Equal(res.Out, e.out) {
				return &Violation{Class: "isolation", Client: i, Op: k, Want: e.out, Got: res.Out, Race: race,
					Detail: fmt.Sprintf("call under this schedule returned (%d bytes, err=%s); alone on a fresh instance (%d bytes, err=%s)", len(res.Out), got, len(e.out), e.errc)}
			}
		}
	}
	if race != "" {
		switch classifyRace(race) {
		case "goldmark":
			return &Violation{Class: "race", Client: -1, Op: -1, Detail: "data race reported by the race detector: " + raceHeadline(race), Race: race}
		default:
			if st != nil {
				st.Trouble = append(st.Trouble, "race report attributed to harness code:\n"+race)
			}
		}
	}
	return nil
}

func raceHeadline(r string) string {
	var parts []string
	lines := strings.Split(r, "\n")
	for i, l := range lines {
		t := strings.TrimSpace(l)
		if (strings.HasPrefix(t, "Write at") || strings.HasPrefix(t, "Read at") || strings.HasPrefix(t, "Previous")) && i+1 < len(lines) {
			parts = append(parts, strings.TrimSpace(lines[i+1]))
		}
		if len(parts) == 2 {
			break
		}
	}
	return strings.Join(parts, " <-> ")
}

func appendEventLog(spec *RunSpec, out *schedOutcome) {
	f, err := os.OpenFile(os.Getenv("VERIF_EVENTLOG"), os.O_APPEND|os.O_CREATE|os.O_WRONLY, 0o644)
	if err != nil {
		return
	}
	defer f.Close()
	fmt.Fprintf(f, "run %d seed %s steps %d hash %016x log %x\n", spec.Run, spec.RunSeed, out.steps, out.evHash, out.evLog)
	for i, rs := range out.results {
		for k, r := range rs {
			fmt.Fprintf(f, "  result %d.%d %s err=%v\n", i, k, sha(r.Out), r.Err)
		}
	}
}
