package main

import (
	"bytes"
	"fmt"

	"github.com/yuin/goldmark/ast"
)

// headingIDs extracts the id of every <h1>..<h6> start tag of a safe-mode output, in
// order, and evaluates the per-document clauses of C15 on them: present, non-empty,
// pairwise distinct. In safe mode without the attribute syntax "<hN" can only be written
// by the heading renderer: raw HTML is replaced, and text, code and attribute values are
// escaped ('<' never appears verbatim).
func headingIDs(out []byte) (ids []string, v *Violation) {
	seen := map[string]int{}
	for i := 0; i+3 < len(out); i++ {
		if out[i] != '<' || out[i+1] != 'h' || out[i+2] < '1' || out[i+2] > '6' {
			continue
		}
		if out[i+3] != ' ' && out[i+3] != '>' {
			continue
		}
		end := bytes.IndexByte(out[i:], '>')
		if end < 0 {
			break
		}
		tag := out[i : i+end+1]
		id, ok := attrValue(tag, "id")
		n := len(ids)
		switch {
		case !ok:
			if v == nil {
				v = &Violation{Class: "id-missing", Got: out, Detail: fmt.Sprintf("heading #%d %q has no id attribute", n, tag)}
			}
			id = "\x00missing"
		case id == "":
			if v == nil {
				v = &Violation{Class: "id-empty", Got: out, Detail: fmt.Sprintf("heading #%d %q has an empty id", n, tag)}
			}
		default:
			if j, dup := seen[id]; dup && v == nil {
				v = &Violation{Class: "id-duplicate", Got: out, Detail: fmt.Sprintf("headings #%d and #%d share id %q", j, n, id)}
			}
			seen[id] = n
		}
		ids = append(ids, id)
		i += end
	}
	return
}

func attrValue(tag []byte, name string) (string, bool) {
	pat := []byte(" " + name + "=\"")
	i := bytes.Index(tag, pat)
	if i < 0 {
		return "", false
	}
	rest := tag[i+len(pat):]
	j := bytes.IndexByte(rest, '"')
	if j < 0 {
		return "", false
	}
	return string(rest[:j]), true
}

func countHeadings(n ast.Node) int {
	c := 0
	_ = ast.Walk(n, func(n ast.Node, entering bool) (ast.WalkStatus, error) {
		if entering && n.Kind() == ast.KindHeading {
			c++
		}
		return ast.WalkContinue, nil
	})
	return c
}

func sameIDs(a, b []string) bool {
	if len(a) != len(b) {
		return false
	}
	for i := range a {
		if a[i] != b[i] {
			return false
		}
	}
	return true
}
