package main

import (
	"encoding/json"
	"flag"
	"fmt"
	"os"
	"os/exec"
	"path/filepath"
	"regexp"
	"sort"
	"strings"
	"sync"
	"sync/atomic"
	"time"
)

// A check is one or more batches, each executed by worker processes of one engine.
type batch struct {
	engine   string
	race     bool // needs the -race binary
	deep     bool // needs the binary built against the instrumented copy (implies race)
	runs     int  // hist, sched: runs in the batch
	coldRuns int  // sched: one-run-per-process cold starts
}

type tierPlan struct {
	batches []batch
	level   string
}

func (p tierPlan) engines() string {
	var es []string
	for _, b := range p.batches {
		es = append(es, b.engine)
	}
	return strings.Join(es, "+")
}

func planFor(prop, tier string) (tierPlan, bool) {
	q := tier != "thorough"
	switch prop {
	case "C14":
		// enumeration of fault positions on a fresh instance (wfault), plus the same clauses for
		// faulted calls inside histories on a long-used instance (hist) and for faulted calls of
		// concurrent workers on a shared instance (sched, plain build: results only)
		if q {
			return tierPlan{batches: []batch{{engine: "wfault"}, {engine: "hist", runs: 80000}, {engine: "sched", runs: 8000}}, level: "fault_enumeration"}, true
		}
		return tierPlan{batches: []batch{{engine: "wfault"}, {engine: "hist", runs: 800000}, {engine: "sched", runs: 200000}}, level: "fault_enumeration"}, true
	case "C06":
		if q {
			return tierPlan{batches: []batch{{engine: "hist", runs: 160000}}, level: "exploration"}, true
		}
		return tierPlan{batches: []batch{{engine: "hist", runs: 1200000}}, level: "exploration"}, true
	case "C15":
		// history clause and per-document clauses: hist; the same heading workload as scripts
		// of concurrent workers on one shared instance: sched (plain build: only heading ids
		// are judged here, data races are C07's)
		if q {
			return tierPlan{batches: []batch{{engine: "hist", runs: 160000}, {engine: "sched", runs: 12000, coldRuns: 160}, {engine: "sched", race: true, deep: true, runs: 800, coldRuns: 240}}, level: "exploration"}, true
		}
		return tierPlan{batches: []batch{{engine: "hist", runs: 1000000}, {engine: "sched", runs: 200000, coldRuns: 3000}, {engine: "sched", race: true, deep: true, runs: 20000, coldRuns: 1500}}, level: "exploration"}, true
	case "C07":
		if q {
			return tierPlan{batches: []batch{{engine: "sched", race: true, runs: 48000, coldRuns: 480}, {engine: "sched", race: true, deep: true, runs: 4000, coldRuns: 96}}, level: "exploration"}, true
		}
		return tierPlan{batches: []batch{{engine: "sched", race: true, runs: 1000000, coldRuns: 8000}, {engine: "sched", race: true, deep: true, runs: 60000, coldRuns: 1500}}, level: "exploration"}, true
	}
	return tierPlan{}, false
}

type knownFinding struct {
	prop, class string
	re          *regexp.Regexp
	text        string
}

// known_findings.txt: read, never written, at run time.
//
//	known: property=C06 class=rerender-differs match=<regexp on the violation detail> -- description
//	fixed: property=C06 <commit> <what failed>            (suppresses nothing)
func loadKnown(path string) ([]knownFinding, error) {
	b, err := os.ReadFile(path)
	if err != nil {
		if os.IsNotExist(err) {
			return nil, nil
		}
		return nil, err
	}
	var out []knownFinding
	for _, l := range strings.Split(string(b), "\n") {
		l = strings.TrimSpace(l)
		if !strings.HasPrefix(l, "known:") {
			continue
		}
		k := knownFinding{text: l}
		rest := strings.TrimSpace(strings.TrimPrefix(l, "known:"))
		desc := ""
		if i := strings.Index(rest, " -- "); i >= 0 {
			desc, rest = rest[i+4:], rest[:i]
		}
		for _, f := range strings.Fields(rest) {
			switch {
			case strings.HasPrefix(f, "property="):
				k.prop = f[len("property="):]
			case strings.HasPrefix(f, "class="):
				k.class = f[len("class="):]
			case strings.HasPrefix(f, "match="):
				re, err := regexp.Compile(f[len("match="):])
				if err != nil {
					return nil, fmt.Errorf("known_findings: %v", err)
				}
				k.re = re
			}
		}
		if k.prop == "" || k.class == "" || k.re == nil {
			return nil, fmt.Errorf("known_findings: malformed line %q", l)
		}
		k.text = desc
		out = append(out, k)
	}
	return out, nil
}

func cmdDrive(args []string) {
	fs := flag.NewFlagSet("drive", flag.ExitOnError)
	prop := fs.String("prop", "", "")
	tier := fs.String("tier", "quick", "")
	raceBin := fs.String("race-bin", "", "")
	deepBin := fs.String("deep-bin", "", "")
	verifDir := fs.String("verif-dir", "/verif", "")
	jobs := fs.Int("jobs", 16, "")
	scale := fs.Float64("scale", 1, "multiply run counts (testing)")
	noEvidence := fs.Bool("no-evidence", false, "")
	replayDir := fs.String("replay-dir", "", "")
	noMin := fs.Bool("no-minimise", false, "")
	first := fs.Bool("first", false, "stop the whole batch at the first violation (self-tests and seed evaluation only; implies -no-evidence)")
	fs.Parse(args)
	if *first {
		*noEvidence = true
	}
	plan, ok := planFor(*prop, *tier)
	if !ok {
		fmt.Fprintf(os.Stderr, "property %s is not decided by this machinery (see MANIFEST.json not_applicable)\n", *prop)
		os.Exit(2)
	}
	if t := os.Getenv("VERIF_TIER"); t == "quick" || t == "thorough" {
		// the command line wins; VERIF_TIER is only a default when no tier was given
		_ = t
	}
	seed := envSeed()
	needRace := false
	for i := range plan.batches {
		plan.batches[i].runs = int(float64(plan.batches[i].runs) * *scale)
		plan.batches[i].coldRuns = int(float64(plan.batches[i].coldRuns) * *scale)
		needRace = needRace || plan.batches[i].race
	}
	if *replayDir == "" {
		*replayDir = filepath.Join(*verifDir, "replays")
	}
	fmt.Printf("goldsim drive property=%s tier=%s engine=%s VERIF_SEED=%d jobs=%d\n", *prop, *tier, plan.engines(), seed, *jobs)
	tmp, err := os.MkdirTemp("", "goldsim-drive")
	if err != nil {
		fmt.Fprintln(os.Stderr, err)
		os.Exit(2)
	}
	defer os.RemoveAll(tmp)
	exitWith := func(code int) { os.RemoveAll(tmp); os.Exit(code) } // os.Exit skips deferred calls
	if needRace && *raceBin == "" {
		fmt.Fprintln(os.Stderr, "need -race-bin")
		exitWith(2)
	}
	known, err := loadKnown(filepath.Join(*verifDir, "known_findings.txt"))
	if err != nil {
		fmt.Fprintln(os.Stderr, err)
		exitWith(2)
	}

	type job struct {
		name string
		bin  string
		args []string
		env  []string
	}
	var jobsList []job
	gomax := []string{"1", "4", "16"}
	for bi, b := range plan.batches {
		bin := os.Args[0]
		if b.race {
			bin = *raceBin
		}
		if b.deep {
			if *deepBin == "" {
				fmt.Fprintln(os.Stderr, "need -deep-bin")
				exitWith(2)
			}
			bin = *deepBin
		}
		common := []string{"worker", "-engine", b.engine, "-prop", *prop, "-seed", fmt.Sprint(seed), "-tier", *tier, "-replay-dir", *replayDir}
		if *noMin {
			common = append(common, "-no-minimise")
		}
		if *first {
			common = append(common, "-first")
		}
		for i := 0; i < *jobs; i++ {
			name := fmt.Sprintf("b%dw%d", bi, i)
			a := append(append([]string{}, common...), "-shard", fmt.Sprint(i), "-of", fmt.Sprint(*jobs), "-runs", fmt.Sprint(b.runs), "-out", filepath.Join(tmp, name+".json"))
			var env []string
			if b.engine == "sched" {
				env = []string{"GORACE=log_path=" + filepath.Join(tmp, name+".race") + " halt_on_error=0 atexit_sleep_ms=0 exitcode=0", "GOMAXPROCS=" + gomax[i%3]}
			}
			jobsList = append(jobsList, job{name, bin, a, env})
		}
		for i := 0; i < b.coldRuns; i++ {
			name := fmt.Sprintf("c%d_%d", bi, i)
			a := append(append([]string{}, common...), "-cold", fmt.Sprint(i), "-out", filepath.Join(tmp, name+".json"))
			env := []string{"GORACE=log_path=" + filepath.Join(tmp, name+".race") + " halt_on_error=0 atexit_sleep_ms=0 exitcode=0", "GOMAXPROCS=" + gomax[i%3]}
			jobsList = append(jobsList, job{name, bin, a, env})
		}
	}
	t0 := time.Now()
	total := NewStats()
	var mu sync.Mutex
	var trouble []string
	sem := make(chan struct{}, *jobs)
	var wg sync.WaitGroup
	maxWall := 40 * time.Minute
	if *tier == "thorough" {
		maxWall = 5 * time.Hour
	}
	var found int32                   // -first: a worker has reported a violation
	running := map[string]*exec.Cmd{} // guarded by runMu; never feeds a decision of a run
	var runMu sync.Mutex
	for _, j := range jobsList {
		if *first && atomic.LoadInt32(&found) != 0 {
			break
		}
		wg.Add(1)
		sem <- struct{}{}
		go func(j job) {
			defer wg.Done()
			defer func() { <-sem }()
			if *first && atomic.LoadInt32(&found) != 0 {
				return
			}
			cmd := exec.Command(j.bin, j.args...)
			// workers keep their own scratch (candidate files of the minimiser, pristine-process
			// inputs) below the drive's scratch directory, which is removed on every exit path of
			// the drive - also when a worker is killed (watchdog, stop-at-first) before its own
			// deferred clean-up runs
			cmd.Env = append(append(os.Environ(), j.env...), "TMPDIR="+tmp)
			errf, _ := os.Create(filepath.Join(tmp, j.name+".err"))
			cmd.Stderr = errf
			cmd.Stdout = errf
			if err := cmd.Start(); err != nil {
				mu.Lock()
				trouble = append(trouble, j.name+": "+err.Error())
				mu.Unlock()
				return
			}
			jobStart := time.Now()
			defer func() {
				// worker seconds per batch (b<i>w<k> / c<i>_<k>): where the wall time of this check goes
				key := "wallms.batch" + strings.SplitN(strings.TrimLeft(j.name, "bc"), "w", 2)[0]
				key = strings.SplitN(key, "_", 2)[0]
				mu.Lock()
				total.Counters[key] += time.Since(jobStart).Milliseconds()
				mu.Unlock()
			}()
			runMu.Lock()
			running[j.name] = cmd
			runMu.Unlock()
			defer func() { runMu.Lock(); delete(running, j.name); runMu.Unlock() }()
			done := make(chan error, 1)
			go func() { done <- cmd.Wait() }()
			var werr error
			select {
			case werr = <-done:
			case <-time.After(maxWall):
				cmd.Process.Kill()
				werr = fmt.Errorf("killed after %v (watchdog)", maxWall)
				<-done
			}
			errf.Close()
			code := 0
			if werr != nil {
				if ee, ok := werr.(*exec.ExitError); ok {
					code = ee.ExitCode()
				} else {
					code = 2
				}
			}
			st, rerr := readStats(filepath.Join(tmp, j.name+".json"))
			if *first && code == 1 && atomic.CompareAndSwapInt32(&found, 0, 1) {
				// enough: stop everybody else
				runMu.Lock()
				for k, c := range running {
					if k != j.name {
						c.Process.Kill()
					}
				}
				runMu.Unlock()
			}
			mu.Lock()
			defer mu.Unlock()
			if *first && atomic.LoadInt32(&found) != 0 && code != 1 {
				return // killed (or finished clean) after somebody else found a violation
			}
			if code != 0 && code != 1 || rerr != nil {
				eb, _ := os.ReadFile(filepath.Join(tmp, j.name+".err"))
				tail := string(eb)
				if len(tail) > 3000 {
					tail = tail[len(tail)-3000:]
				}
				trouble = append(trouble, fmt.Sprintf("worker %s exit=%d err=%v stats=%v\n%s", j.name, code, werr, rerr, tail))
			}
			if st != nil {
				total.Merge(st)
			}
			// a cold-start worker's files are no longer needed
			if strings.HasPrefix(j.name, "c") {
				os.Remove(filepath.Join(tmp, j.name+".json"))
				os.Remove(filepath.Join(tmp, j.name+".json.distinct"))
				os.Remove(filepath.Join(tmp, j.name+".err"))
			}
		}(j)
	}
	wg.Wait()
	wall := time.Since(t0).Seconds()
	trouble = append(trouble, total.Trouble...)

	// reach probes that must not be stuck at zero
	var must []string
	switch *prop {
	case "C14":
		must = []string{"fired.short+err", "fired.zero+err", "fired.full+err", "fired.always", "fired.transient", "fired.flaky", "fired.short+nil", "probe.fault_beyond_4096", "probe.fault_at_offset_0", "probe.fault_on_last_sink_call", "control_runs",
			"hist.c14_faulted_ops_judged", "sched.c14_ops_judged", "sched.c14_faults_fired", "probe.sweep_faulted", "probe.length_sweep_faulted", "errkind.temporary", "errkind.timeout", "errkind.shortwrite", "errkind.eof", "errkind.closedpipe", "errkind.epipe", "errkind.deadline", "errkind.slice", "errkind.mapstruct", "errkind.joined", "errkind.emptymsg", "errkind.hugemsg"}
	case "C06":
		must = []string{"probe.rerenders", "probe.stale_tree_renders", "probe.ops_after_failed_op", "probe.same_doc_back_to_back", "probe.renders_by_other_renderer", "probe.renders_after_other_renderer", "probe.gap_runs", "probe.gap_runs_storm_of_failing_calls", "probe.near_miss_runs", "probe.histories_longer_than_255_ops", "probe.cfg_error_returning_node_renderers", "op.Convert", "op.PkgConvert", "op.Parse", "op.Render", "op.ParseRender"}
	case "C15":
		must = []string{"probe.c15_docs_with_slug_collision", "probe.c15_docs_with_suffix_collision", "probe.ops_after_failed_op", "probe.gap_runs", "probe.histories_longer_than_255_ops", "probe.c15_docs_with_more_than_65536_ids", "c15.docs_with_2plus_headings", "probe.preemptions", "sched.c15_ops_judged"}
	case "C07":
		must = []string{"probe.once_contended", "probe.once_blocked", "probe.preemptions", "probe.mid_init_switch", "cold_start_runs", "fresh_instance_runs", "overlap.parse|parse", "overlap.parse|render", "overlap.render|render", "op.AuxConvert", "op.Convert", "op.ParseRender", "op.PkgConvert", "op.ParseOnly", "op.RenderPre", "fired.stall", "probe.stalled_worker_released_after_all_others_finished"}
	}
	if len(total.Violations) == 0 && !*first {
		for _, k := range must {
			if total.Counters[k] == 0 {
				trouble = append(trouble, "workload does not reach "+k+" (probe stuck at zero)")
			}
		}
	}

	// violations
	exit := 0
	// replay files that reproduced in a fresh process when they were written come first
	sort.Slice(total.Violations, func(i, j int) bool {
		a, b := total.Violations[i], total.Violations[j]
		if a.Unverified != b.Unverified {
			return !a.Unverified
		}
		return a.Replay < b.Replay
	})
	realVio := 0
	seenReplay := map[string]bool{}
	perClass := map[string]int{}
	for i := range total.Violations {
		v := &total.Violations[i]
		if seenReplay[v.Replay] {
			continue
		}
		seenReplay[v.Replay] = true
		matched := false
		for _, k := range known {
			if k.prop == v.Property && k.class == v.Class && k.re.MatchString(v.Detail) {
				fmt.Printf("KNOWN-FINDING: property=%s %s (class=%s replay=%s)\n", v.Property, k.text, v.Class, v.Replay)
				v.Known = k.text
				matched = true
				break
			}
		}
		if !matched {
			realVio++
			exit = 1
			perClass[v.Class]++
			if perClass[v.Class] > 4 {
				os.Remove(v.Replay) // enough examples of this class
				continue
			}
			if v.Unverified {
				fmt.Printf("violation class=%s (replay file did not reproduce in a fresh process when written): %s\n", v.Class, v.Detail)
			} else {
				fmt.Printf("violation class=%s: %s\n", v.Class, v.Detail)
			}
			fmt.Printf("VIOLATION property=%s replay=%s\n", v.Property, v.Replay)
		}
	}

	if !*noEvidence {
		if err := writeEvidence(*verifDir, *prop, *tier, seed, plan, total, wall, realVio); err != nil {
			trouble = append(trouble, "cannot write evidence: "+err.Error())
		}
	}
	ev := total.Counters["evaluations"]
	fmt.Printf("property=%s tier=%s evaluations=%d distinct_nontrivial=%d steps=%d violations=%d wall=%.1fs (%.0f runs/hour)\n",
		*prop, *tier, ev, len(total.distinct), total.Counters["steps"], realVio, wall, float64(ev)/wall*3600)
	if len(trouble) > 0 && exit == 0 {
		for _, t := range trouble {
			fmt.Fprintln(os.Stderr, "TROUBLE:", t)
		}
		exitWith(2)
	}
	for _, t := range trouble {
		fmt.Fprintln(os.Stderr, "TROUBLE:", t)
	}
	exitWith(exit)
}

func writeEvidence(verifDir, prop, tier string, seed uint64, plan tierPlan, st *Stats, wall float64, vio int) error {
	cov := map[string]interface{}{}
	ev := st.Counters["evaluations"]
	cov["evaluations"] = ev
	cov["distinct_nontrivial"] = len(st.distinct)
	var samples []interface{}
	for _, s := range st.Samples {
		var v interface{}
		_ = json.Unmarshal(s, &v)
		samples = append(samples, v)
	}
	cov["samples"] = samples
	fired := map[string]int64{}
	probes := map[string]int64{}
	overlap := map[string]int64{}
	ops := map[string]int64{}
	policies := map[string]int64{}
	workers := map[string]int64{}
	other := map[string]int64{}
	cfgs := 0
	pairs := 0
	for k, v := range st.Counters {
		switch {
		case strings.HasPrefix(k, "fired."):
			fired[k[6:]] = v
		case strings.HasPrefix(k, "probe."):
			probes[k[6:]] = v
		case strings.HasPrefix(k, "overlap."):
			overlap[k[8:]] = v
		case strings.HasPrefix(k, "op."):
			ops[k[3:]] = v
		case strings.HasPrefix(k, "policy."):
			policies[k[7:]] = v
		case strings.HasPrefix(k, "workers."):
			workers[k[8:]] = v
		case strings.HasPrefix(k, "cfg."):
			cfgs++
		case strings.HasPrefix(k, "pair."):
			pairs++
		case k == "evaluations":
		default:
			other[k] = v
		}
	}
	cov["fault_kinds_fired"] = fired
	cov["reach_probes"] = probes
	cov["counters"] = other
	cov["logical_steps"] = st.Counters["steps"]
	cov["simulated_time"] = "goldmark reads no clock; simulated time is reported as logical steps (scheduler decisions / sink calls / API operations)"
	cov["runs_per_hour"] = int64(float64(ev) / wall * 3600)
	cov["seeds"] = fmt.Sprintf("VERIF_SEED=%d; every run's seed is mix(VERIF_SEED, engine, run index); %d runs", seed, ev)
	cov["real_components"] = []string{"goldmark parser, block and inline parsers, transformers", "renderer and html/extension node renderers", "util (entity table, BufWriter users)", "bufio.Writer inside Renderer.Render", "sync.Once lazy initialisation (parser, renderer, entity table)", "package-level default Markdown"}
	cov["stub_components"] = []string{"destination writer (fault-injecting sink; writer stacks W1/W2/W3)", "delegating parser.Context / parser.IDs / text.Reader wrappers (yield points, transparent)", "scheduler (seeded policies or explicit decision list) releasing real goroutines one at a time"}
	switch prop {
	case "C14":
		cov["rule"] = "fault_enumeration: for every (configuration, document, API path, writer stack) group the fault-free output R is obtained, then every byte offset k in [0,len(R)] is used as the point where the writer starts to fail (short write + error; strided with all buffer boundaries kept when the group is not marked exhaustive), every sink call index j for zero+err and full+err, 'always', seeded transient plans, seeded flaky plans (a sequence of failing and succeeding calls) and short-write-without-error plans. Sub-batches beyond the enumeration: a boundary sweep (a filler paragraph sized so that every byte of a template's rendering lands once on goldmark's 4096-byte buffer boundary, with the fault plans that matter there), seeded histories on one long-used instance in which half of the calls meet a failing destination (every faulted call judged by the same clauses), and seeded schedules of 2..8 goroutines on a shared instance with failing and healthy destinations side by side. A case is non-trivial when the fault actually fired (the sink returned its error or wrote short); distinct = distinct (group, plan) tuples by hash."
		cov["exhaustive"] = false
		cov["groups"] = st.Counters["groups"]
		cov["groups_with_every_offset_enumerated"] = st.Counters["groups_exhaustive"]
		cov["explanation_exhaustive"] = "within each of the groups_with_every_offset_enumerated groups the (offset k) grid 0..len(R) and the (call j) grid are enumerated completely; the set of documents is a sample"
	case "C06":
		cov["rule"] = "exploration: seeded histories (1..N operations: Convert, package-level Convert, Parse, Render of fresh/re-rendered/stale trees by the instance's own Renderer and by the Renderer of an instance whose renderer-side configuration differs, Parse+Render, conversions by other instances, faulted calls in the odd-numbered runs) on one long-lived instance per run; every fault-free operation is compared byte-for-byte with a fresh instance converting the same source alone (memoised, 2% recomputed). Non-trivial = history with >=2 operations; distinct by hash of (configuration, operations, documents)."
		cov["operations"] = ops
		cov["distinct_configurations"] = cfgs
	case "C15":
		cov["rule"] = "exploration: (a) seeded histories of collision-dense heading documents on one long-lived AutoHeadingID instance (safe mode, no attribute syntax), other instances used in between, faulted conversions in the odd-numbered runs; heading ids of every conversion compared with a fresh instance (history clause), a sample re-computed in fresh OS processes (package-level state), and the per-document clauses (present, non-empty, pairwise distinct) evaluated on every output as monitored invariants; (b) the same heading workload as scripts of 2..8 goroutines on one shared instance under the deterministic scheduler, ids of every conversion compared with the document converted alone. Non-trivial = history with >=2 operations, or schedule with at least one preemption; distinct by hash."
		cov["operations"] = ops
		cov["distinct_configurations"] = cfgs
		cov["policies"] = policies
		cov["workers_per_run"] = workers
		cov["phase_overlap_at_switch_points"] = overlap
	case "C07":
		cov["rule"] = "exploration: 2..8 real goroutines run scripts on one shared Markdown (or its Parser / Renderer separately; some workers also build and use an instance of their own next to it) under -race; the simulator releases exactly one goroutine at a time at every seam call (Context, IDs, Reader, BufWriter, sink) and at the 12 hook sites of the three sync.Once initialisations; who runs next comes from a seeded policy (random, PCT, round-robin, run-to-block, herd) or an explicit decision list. Oracles: per-call equality with the call run alone on a fresh instance, race detector reports (hand-off invisible to the detector), panics, deadlock. Non-trivial = schedule with at least one preemption (switch away from a worker that could continue); distinct by hash of the (worker, site) event sequence, configuration and document sizes."
		cov["policies"] = policies
		cov["operations"] = ops
		cov["workers_per_run"] = workers
		cov["phase_overlap_at_switch_points"] = overlap
		cov["distinct_preempted_resumed_site_pairs"] = pairs
		cov["distinct_configurations"] = cfgs
	}
	evd := map[string]interface{}{
		"property_id": prop, "tier": tier, "seed": seed, "level": plan.level, "coverage": cov, "wall_s": wall, "violations": vio,
		"assumptions": []string{
			"sampling, not proof: a clean batch is evidence only for the runs listed here",
			"delegating seam wrappers are transparent (checked by 'check selftest transparent')",
			"reference model = the same public API on a brand new instance, used once, alone, with a non-failing writer",
			"the Go race detector reports every unsynchronised conflicting access pair on executed paths (C07)",
		},
	}
	if err := os.MkdirAll(filepath.Join(verifDir, "evidence"), 0o755); err != nil {
		return err
	}
	b, err := json.MarshalIndent(evd, "", " ")
	if err != nil {
		return err
	}
	return os.WriteFile(filepath.Join(verifDir, "evidence", prop+".json"), b, 0o644)
}
