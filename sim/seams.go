package main

import (
	"fmt"
	"regexp"

	"github.com/yuin/goldmark/ast"
	"github.com/yuin/goldmark/parser"
	"github.com/yuin/goldmark/text"
)

// Yield sites. Each seam method and each hook site has an id; the scheduler's event log
// is a sequence of (worker, site).
const (
	siteStart uint16 = iota
	siteSink
	siteBufW
	siteCtxGet
	siteCtxSet
	siteCtxCompute
	siteCtxRef
	siteCtxIDs
	siteCtxBlock
	siteCtxDelim
	siteCtxOpened
	siteCtxOther
	siteIDsGen
	siteIDsPut
	siteRdPeek
	siteRdAdvance
	siteRdOther
	siteOpBoundary
	sitePO       // a no-op parser.ParseOption of the harness: inside the prologue of Parse
	siteHookBase // + 4*once + {enter,begin,end,done}
)

var siteNames = []string{"start", "sink", "bufw", "ctx.get", "ctx.set", "ctx.compute", "ctx.ref", "ctx.ids",
	"ctx.block", "ctx.delim", "ctx.opened", "ctx.other", "ids.gen", "ids.put", "rd.peek", "rd.advance", "rd.other", "op", "parseopt",
	"parser.init.enter", "parser.init.begin", "parser.init.end", "parser.init.done",
	"renderer.init.enter", "renderer.init.begin", "renderer.init.end", "renderer.init.done",
	"entities.init.enter", "entities.init.begin", "entities.init.end", "entities.init.done"}

// sites >= siteDeepBase are scheduling points inserted into a copy of goldmark by ./instr
const siteDeepBase uint16 = 1000

// deep sites around calls of synchronisation primitives (see instr: syncBase)
const siteDeepSyncBase uint16 = siteDeepBase + 20000

func isSyncSite(s uint16) bool { return s >= siteDeepSyncBase || isHookSite(s) }

func siteName(s uint16) string {
	if int(s) < len(siteNames) {
		return siteNames[s]
	}
	if s >= siteDeepBase {
		return fmt.Sprintf("deep#%d", s-siteDeepBase)
	}
	return "?"
}

func hookSiteID(name string) (uint16, bool) {
	for i := int(siteHookBase); i < len(siteNames); i++ {
		if siteNames[i] == name {
			return uint16(i), true
		}
	}
	return 0, false
}

func isHookSite(s uint16) bool  { return s >= siteHookBase && s < siteDeepBase }
func hookPhase(s uint16) int    { return int(s-siteHookBase) % 4 } // 0 enter 1 begin 2 end 3 done
func hookOnceIdx(s uint16) int  { return int(s-siteHookBase) / 4 }
func isInitEnter(s uint16) bool { return isHookSite(s) && hookPhase(s) == 0 }
func isInitDone(s uint16) bool  { return isHookSite(s) && hookPhase(s) == 3 }

// yielder is how a seam reaches the scheduler. A nil *yielder is a valid no-op, so the
// same delegating wrappers are used (transparently) by the sequential engines.
type yielder struct{ w *worker }

func (y *yielder) yield(site uint16) {
	if y == nil {
		return
	}
	w := y.w
	// The goroutine that must park is the one that is running. Normally that is the owner of
	// this seam object; if the code under test hands one caller's writer or context to another
	// goroutine (a shared buffer, say) the event is the running worker's, not the owner's.
	if g := goid(); g != w.goid {
		if o := w.sim.byGoid[g]; o != nil {
			w = o
		} else {
			return // not a worker of this run (a helper goroutine of the code under test)
		}
	}
	w.yield(site)
}

// ---- parser.Context seam: every method is a yield point --------------------------------

type simCtx struct {
	c parser.Context
	y *yielder
}

var _ parser.Context = (*simCtx)(nil)

func (c *simCtx) String() string                         { return c.c.String() }
func (c *simCtx) Get(k parser.ContextKey) interface{}    { c.y.yield(siteCtxGet); return c.c.Get(k) }
func (c *simCtx) Set(k parser.ContextKey, v interface{}) { c.y.yield(siteCtxSet); c.c.Set(k, v) }
func (c *simCtx) ComputeIfAbsent(k parser.ContextKey, f func() interface{}) interface{} {
	c.y.yield(siteCtxCompute)
	return c.c.ComputeIfAbsent(k, f)
}
func (c *simCtx) AddReference(r parser.Reference) { c.y.yield(siteCtxRef); c.c.AddReference(r) }
func (c *simCtx) Reference(l string) (parser.Reference, bool) {
	c.y.yield(siteCtxRef)
	return c.c.Reference(l)
}
func (c *simCtx) References() []parser.Reference { c.y.yield(siteCtxRef); return c.c.References() }
func (c *simCtx) IDs() parser.IDs {
	c.y.yield(siteCtxIDs)
	return &simIDs{c.c.IDs(), c.y}
}
func (c *simCtx) BlockOffset() int     { c.y.yield(siteCtxBlock); return c.c.BlockOffset() }
func (c *simCtx) SetBlockOffset(v int) { c.y.yield(siteCtxBlock); c.c.SetBlockOffset(v) }
func (c *simCtx) BlockIndent() int     { c.y.yield(siteCtxBlock); return c.c.BlockIndent() }
func (c *simCtx) SetBlockIndent(v int) { c.y.yield(siteCtxBlock); c.c.SetBlockIndent(v) }
func (c *simCtx) FirstDelimiter() *parser.Delimiter {
	c.y.yield(siteCtxDelim)
	return c.c.FirstDelimiter()
}
func (c *simCtx) LastDelimiter() *parser.Delimiter {
	c.y.yield(siteCtxDelim)
	return c.c.LastDelimiter()
}
func (c *simCtx) PushDelimiter(d *parser.Delimiter) { c.y.yield(siteCtxDelim); c.c.PushDelimiter(d) }
func (c *simCtx) RemoveDelimiter(d *parser.Delimiter) {
	c.y.yield(siteCtxDelim)
	c.c.RemoveDelimiter(d)
}
func (c *simCtx) ClearDelimiters(b ast.Node)       { c.y.yield(siteCtxDelim); c.c.ClearDelimiters(b) }
func (c *simCtx) OpenedBlocks() []parser.Block     { c.y.yield(siteCtxOpened); return c.c.OpenedBlocks() }
func (c *simCtx) SetOpenedBlocks(v []parser.Block) { c.y.yield(siteCtxOpened); c.c.SetOpenedBlocks(v) }
func (c *simCtx) LastOpenedBlock() parser.Block {
	c.y.yield(siteCtxOpened)
	return c.c.LastOpenedBlock()
}
func (c *simCtx) IsInLinkLabel() bool { c.y.yield(siteCtxOther); return c.c.IsInLinkLabel() }

type simIDs struct {
	i parser.IDs
	y *yielder
}

func (s *simIDs) Generate(v []byte, k ast.NodeKind) []byte {
	s.y.yield(siteIDsGen)
	return s.i.Generate(v, k)
}
func (s *simIDs) Put(v []byte) { s.y.yield(siteIDsPut); s.i.Put(v) }

// ---- text.Reader seam (block phase of Parser.Parse) ------------------------------------

type simReader struct {
	r text.Reader
	y *yielder
}

var _ text.Reader = (*simReader)(nil)

func (r *simReader) ReadRune() (rune, int, error)     { r.y.yield(siteRdOther); return r.r.ReadRune() }
func (r *simReader) Source() []byte                   { return r.r.Source() }
func (r *simReader) ResetPosition()                   { r.y.yield(siteRdOther); r.r.ResetPosition() }
func (r *simReader) Peek() byte                       { r.y.yield(siteRdPeek); return r.r.Peek() }
func (r *simReader) PeekLine() ([]byte, text.Segment) { r.y.yield(siteRdPeek); return r.r.PeekLine() }
func (r *simReader) PrecendingCharacter() rune {
	r.y.yield(siteRdOther)
	return r.r.PrecendingCharacter()
}
func (r *simReader) Value(s text.Segment) []byte       { return r.r.Value(s) }
func (r *simReader) LineOffset() int                   { r.y.yield(siteRdOther); return r.r.LineOffset() }
func (r *simReader) Position() (int, text.Segment)     { r.y.yield(siteRdOther); return r.r.Position() }
func (r *simReader) SetPosition(l int, s text.Segment) { r.y.yield(siteRdOther); r.r.SetPosition(l, s) }
func (r *simReader) SetPadding(n int)                  { r.y.yield(siteRdOther); r.r.SetPadding(n) }
func (r *simReader) Advance(n int)                     { r.y.yield(siteRdAdvance); r.r.Advance(n) }
func (r *simReader) AdvanceAndSetPadding(n, p int) {
	r.y.yield(siteRdAdvance)
	r.r.AdvanceAndSetPadding(n, p)
}
func (r *simReader) AdvanceLine() { r.y.yield(siteRdAdvance); r.r.AdvanceLine() }
func (r *simReader) SkipSpaces() (text.Segment, int, bool) {
	r.y.yield(siteRdOther)
	return r.r.SkipSpaces()
}
func (r *simReader) SkipBlankLines() (text.Segment, int, bool) {
	r.y.yield(siteRdOther)
	return r.r.SkipBlankLines()
}
func (r *simReader) Match(reg *regexp.Regexp) bool { r.y.yield(siteRdOther); return r.r.Match(reg) }
func (r *simReader) FindSubMatch(reg *regexp.Regexp) [][]byte {
	r.y.yield(siteRdOther)
	return r.r.FindSubMatch(reg)
}
func (r *simReader) FindClosure(o, c byte, opt text.FindClosureOptions) (*text.Segments, bool) {
	r.y.yield(siteRdOther)
	return r.r.FindClosure(o, c, opt)
}
