package main

import (
	"embed"
	"encoding/json"
	"sort"
	"strings"
)

// The corpus is vendored (copied from /repo/_test and /repo/extension/_test at design
// time) and embedded, so the checks do not depend on test data staying untouched in /repo.

//go:embed corpus/*
var corpusFS embed.FS

type Corpus struct {
	All      [][]byte            // every document
	Small    [][]byte            // <= 400 bytes
	ByFamily map[string][][]byte // by construct family (substring classification)
	Entity   [][]byte            // documents containing a named entity reference
}

func loadTxt(s string) []string {
	var out []string
	parts := strings.Split(s, "//- - - - - - - - -//")
	for i := 1; i < len(parts); i += 2 {
		d := strings.TrimPrefix(parts[i], "\n")
		out = append(out, d)
	}
	return out
}

func loadCorpus() *Corpus {
	c := &Corpus{ByFamily: map[string][][]byte{}}
	ents, err := corpusFS.ReadDir("corpus")
	if err != nil {
		panic(err)
	}
	names := []string{}
	for _, e := range ents {
		names = append(names, e.Name())
	}
	sort.Strings(names)
	seen := map[string]bool{}
	add := func(d string) {
		if seen[d] || len(d) == 0 {
			return
		}
		seen[d] = true
		c.All = append(c.All, []byte(d))
	}
	for _, n := range names {
		b, err := corpusFS.ReadFile("corpus/" + n)
		if err != nil {
			panic(err)
		}
		if strings.HasSuffix(n, ".json") {
			var exs []struct {
				Markdown string `json:"markdown"`
			}
			if err := json.Unmarshal(b, &exs); err != nil {
				panic(err)
			}
			for _, e := range exs {
				add(e.Markdown)
			}
		} else {
			for _, d := range loadTxt(string(b)) {
				add(d)
			}
		}
	}
	for _, d := range c.All {
		if len(d) <= 400 {
			c.Small = append(c.Small, d)
		}
		s := string(d)
		fam := func(name string, subs ...string) {
			for _, x := range subs {
				if strings.Contains(s, x) {
					c.ByFamily[name] = append(c.ByFamily[name], d)
					return
				}
			}
		}
		fam("fence", "```", "~~~")
		fam("list", "\n- ", "\n* ", "\n+ ", "1. ", "1) ")
		fam("link", "](", "]:", "][")
		fam("emph", "*", "_")
		fam("table", "|")
		fam("footnote", "[^")
		fam("heading", "# ", "\n===", "\n---")
		fam("html", "<")
		fam("quote", "> ")
		if strings.Contains(s, "&") && strings.Contains(s, ";") {
			c.Entity = append(c.Entity, d)
		}
	}
	return c
}
