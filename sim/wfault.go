package main

import (
	"fmt"
	"os"
	"strings"
	"time"
)

// Engine wfault — decides C14 by enumerating fault sequences on the writer seam.

// execWfault executes a one-operation spec: control (no fault) on a fresh instance for the
// reference output, then the faulted operation on another fresh instance.
func execWfault(spec *RunSpec, st *Stats) *Violation {
	if len(spec.Clients) != 1 || len(spec.Clients[0]) < 1 {
		panic("wfault spec must have one client with at least one operation")
	}
	ops := spec.Clients[0]
	op := ops[len(ops)-1]
	R, ok := wfaultRef(spec.Cfg, spec.Docs, op)
	if !ok {
		if st != nil {
			st.Inc("control_failed")
		}
		return nil
	}
	// prelude: the operations this process executed just before the checked one (each alone
	// on its own fresh instance, results ignored). They matter only if the code under test
	// keeps state across calls at package level (a pooled buffer, say); the minimiser drops
	// them when the violation does not need them.
	for _, pre := range ops[:len(ops)-1] {
		cfg := spec.Cfg
		if pre.Kind == "PkgConvert" {
			cfg = Config{}
		}
		if _, timedOut := runSoloDeadline(cfg, spec.Docs, pre); timedOut {
			return &Violation{Class: "hang", Client: 0, Op: 0, Detail: fmt.Sprintf("the call did not return within %v", hangAfter)}
		}
	}
	v := wfaultOne(spec.Cfg, spec.Docs, op, R, st)
	if v != nil {
		v.Op = len(ops) - 1
	}
	return v
}

// wfaultRef: fault-free output for this operation's API path, through a plain buffer.
func wfaultRef(cfg Config, docs [][]byte, op Op) ([]byte, bool) {
	c := op
	c.Fault = nil
	c.Stack = "W1"
	if c.Kind == "PkgConvert" {
		cfg = Config{}
	}
	res := runSolo(cfg, docs, c)
	if res.Panic != "" || res.Err != nil || res.Skipped {
		return nil, false
	}
	return res.Out, true
}

// runSolo: the operation alone on a brand new instance.
func runSolo(cfg Config, docs [][]byte, op Op) OpResult {
	env := newEnv(cfg, docs)
	trees := map[int]*treeHandle{}
	return execOp(env, trees, 0, 0, op, nil)
}

// hangAfter: an operation that has not returned after this long is reported as a hang. A
// conversion of these documents takes well under 10 ms; the margin is three orders of
// magnitude so that a loaded machine cannot produce a false alarm. The stuck goroutine cannot
// be stopped, so the process reports and exits (see wfaultWorker / cmdExecSpec).
const hangAfter = 25 * time.Second

var hung bool // a goroutine of this process is stuck; stop after reporting

func runSoloDeadline(cfg Config, docs [][]byte, op Op) (OpResult, bool) {
	ch := make(chan OpResult, 1)
	go func() { ch <- runSolo(cfg, docs, op) }()
	t := time.NewTimer(hangAfter)
	defer t.Stop()
	select {
	case r := <-ch:
		return r, false
	case <-t.C:
		hung = true
		return OpResult{}, true
	}
}

func wfaultOne(cfg Config, docs [][]byte, op Op, R []byte, st *Stats) *Violation {
	res, timedOut := runSoloDeadline(cfg, docs, op)
	if timedOut {
		if st != nil {
			st.Inc("evaluations")
		}
		return &Violation{Class: "hang", Client: 0, Op: 0, Want: R,
			Detail: fmt.Sprintf("the call did not return within %v (with a non-failing writer it takes milliseconds): neither an error nor success is reported", hangAfter)}
	}
	if res.Skipped {
		return nil
	}
	v := checkFaulted(&res, R)
	if st != nil {
		st.Inc("evaluations")
		s := res.Sink
		if s.fired != "" {
			st.Inc("fired." + s.fired)
			if s.failBeyond4096 {
				st.Inc("probe.fault_beyond_4096")
			}
			if s.failAtZero {
				st.Inc("probe.fault_at_offset_0")
			}
			if s.firstFail == s.calls-1 && s.firstFail >= 0 {
				st.Inc("probe.fault_on_last_sink_call")
			}
			if s.firstFail >= 0 && s.firstFail < s.calls-1 {
				st.Inc("probe.calls_after_first_failure")
			}
		} else if op.Fault != nil {
			st.Inc("fault_not_reached")
		} else {
			st.Inc("control_runs")
		}
		st.Add("steps", int64(s.calls))
	}
	if v != nil {
		v.Client, v.Op = 0, 0
	}
	return v
}

type wfaultParams struct {
	prop       string
	verifSeed  uint64
	shard, of  int
	tier       string
	replayDir  string
	maxVio     int
	noMinimise bool
	ctl        *replayCtl
}

// wfaultGroup enumerates every fault position for one (cfg, doc, path, stack).
func wfaultGroup(p *wfaultParams, st *Stats, run int, cfg Config, doc []byte, kind, stack string, r *Rng, stride int, exhaustive bool) {
	docs := [][]byte{doc}
	base := Op{Kind: kind, Doc: 0, Stack: stack, Ctx: r.Chance(1, 4), Reader: (kind == "ParseRender" || kind == "RenderChild") && r.Chance(1, 4)}
	R, ok := wfaultRef(cfg, docs, base)
	if !ok {
		st.Inc("control_failed")
		return
	}
	L := len(R)
	// the number of offsets tried is bounded by the OUTPUT length: beyond a few thousand bytes
	// only the groups chosen for it enumerate every offset (stride 1 and exhaustive set by the
	// caller); the others are strided so that a group costs at most some hundred conversions
	// (all buffer boundaries are always kept, see nearBoundary)
	if !exhaustive {
		lim := 400
		if p.tier == "thorough" {
			lim = 2000
		}
		if s := L / lim; s > stride {
			stride = s
		}
	}
	if stride == 1 {
		st.Inc("groups_exhaustive")
	}
	st.Inc("groups")
	st.Max("max.output_len", int64(L))
	mkSpec := func(op Op) *RunSpec {
		return &RunSpec{Property: p.prop, Engine: "wfault", VerifSeed: p.verifSeed, Run: run,
			RunSeed: fmt.Sprintf("%#x", runSeed(p.verifSeed, "wfault", run)), Cfg: cfg, Docs: docs, Clients: [][]Op{{op}}}
	}
	groupHash := hashBytes(hashStr(cfg.Key()+"|"+kind+"|"+stack), doc)
	var recent []Op // the last operations executed in this group, oldest first
	try := func(f *FaultPlan) bool {
		op := base
		op.Fault = f
		defer func() {
			recent = append(recent, op)
			if len(recent) > 3 {
				recent = recent[1:]
			}
		}()
		before := st.Counters["fired.short+err"] + st.Counters["fired.zero+err"] + st.Counters["fired.full+err"] +
			st.Counters["fired.always"] + st.Counters["fired.transient"] + st.Counters["fired.short+nil"] + st.Counters["fired.flaky"]
		v := wfaultOne(cfg, docs, op, R, st)
		after := st.Counters["fired.short+err"] + st.Counters["fired.zero+err"] + st.Counters["fired.full+err"] +
			st.Counters["fired.always"] + st.Counters["fired.transient"] + st.Counters["fired.short+nil"] + st.Counters["fired.flaky"]
		if after > before && f != nil {
			st.Distinct(hashU64(hashU64(hashStr(f.Kind+f.Shape+"/"+f.Err)^groupHash, uint64(f.K)), uint64(f.J)))
			if f.Err != "" {
				st.Inc("errkind." + f.Err)
			}
		}
		if v != nil && p.ctl != nil {
			p.ctl.capture(mkSpec(op), v)
			return false
		}
		if v != nil {
			if len(st.Violations) < p.maxVio {
				sp := mkSpec(op)
				sp.Clients = [][]Op{append(append([]Op{}, recent...), op)}
				v.Op = len(recent)
				reportViolation(sp, v, st, p.replayDir, !p.noMinimise)
			}
			st.Inc("violations_seen")
			return false
		}
		return !hung
	}
	// control through this very stack (success must mean complete)
	if !try(nil) {
		return
	}
	// how many sink calls does a fault-free run make on this stack?
	ctl := runSolo(cfg, docs, base)
	calls := ctl.Sink.calls
	st.Sample(map[string]interface{}{"engine": "wfault", "config": cfg.Key(), "path": kind, "stack": stack, "doc": clipStr(doc, 120),
		"output_len": L, "sink_calls_fault_free": calls, "enumerated": fmt.Sprintf("short+err k=0..%d (stride %d), zero+err/full+err j=0..%d, always, transient, flaky sequences, short+nil", L, stride, calls)})

	// every byte offset
	for k := 0; k <= L; k++ {
		if stride > 1 && k%stride != 0 && !nearBoundary(k, L) {
			continue
		}
		if !try(&FaultPlan{Kind: "short+err", K: k}) {
			return
		}
	}
	// every sink call index
	jstride := 1
	if stride > 1 && calls > 400 {
		jstride = stride
	}
	for j := 0; j <= calls; j++ { // j == calls: control, the fault is never reached
		if jstride > 1 && j%jstride != 0 && j < calls-3 && j > 3 {
			continue
		}
		if !try(&FaultPlan{Kind: "zero+err", J: j}) || !try(&FaultPlan{Kind: "full+err", J: j}) {
			return
		}
	}
	if !try(&FaultPlan{Kind: "always"}) {
		return
	}
	// error KINDS: the same fault delivered as an error value that looks temporary, like a
	// timeout, like a short write, EOF, closed pipe, EPIPE or an expired deadline (code that
	// treats some kinds as benign or retryable must still surface the failure)
	for _, ek := range errKinds[1:] {
		ks := []int{0, L / 2, L - 1}
		if L > 4200 {
			ks = append(ks, 4096, 4097)
		}
		for _, k := range ks {
			if k >= 0 && !try(&FaultPlan{Kind: "short+err", K: k, Err: ek}) {
				return
			}
		}
		for _, j := range []int{0, calls / 2, calls - 1} {
			if j < 0 {
				continue
			}
			if !try(&FaultPlan{Kind: "zero+err", J: j, Err: ek}) || !try(&FaultPlan{Kind: "full+err", J: j, Err: ek}) {
				return
			}
			for _, sh := range []string{"zero", "short", "full"} {
				if !try(&FaultPlan{Kind: "transient", J: j, Shape: sh, Err: ek}) {
					return
				}
			}
		}
		if !try(&FaultPlan{Kind: "always", Err: ek}) {
			return
		}
	}
	// fault SEQUENCES: every call fails with some probability, the calls in between succeed
	// (a destination that recovers and fails again); at several rates, a few sequences each
	for _, rate := range []int{3, 10, 30, 60} {
		for i := 0; i < 3; i++ {
			f := &FaultPlan{Kind: "flaky", J: r.Intn(1 << 20), K: rate}
			if i == 2 {
				f.Err = pick(r, errKinds[1:])
			}
			if !try(f) {
				return
			}
		}
	}
	// seeded transient and contract-breaking plans
	if calls > 0 {
		for i := 0; i < 4; i++ {
			if !try(&FaultPlan{Kind: "transient", J: r.Intn(calls), Shape: pick(r, []string{"zero", "short", "full"})}) {
				return
			}
			if !try(&FaultPlan{Kind: "short+nil", J: r.Intn(calls)}) {
				return
			}
		}
	}
}

// ---- boundary sweep -------------------------------------------------------------------------
//
// Which renderer call is in progress when goldmark's 4096-byte buffer becomes exactly full
// depends on the document. The sweep puts a filler paragraph of n bytes in front of a small
// template and varies n so that EVERY byte of the template's rendering lands on the buffer
// boundary once: each WriteByte / WriteString / Write / Fprintf call of the node renderers
// concerned meets a full buffer, a flush that fails, or a flush that accepts nothing. Per
// document only the fault plans that matter at a boundary are run (no offset enumeration).

var sweepTemplates = []string{
	"a\nb  \nc\\\nd\n",
	"# h {#i .c title=\"t\"}\n\nh2\n===\n",
	"[a](/u \"t\") ![i](/p.png \"t\") <http://a.b> <span>x</span> &amp; &copy;\n",
	"7. x\n8. y\n\n- [x] a\n- b\n",
	"```go\nx<y\n```\n\n    i\n\n<div>\nh\n</div>\n",
	"| a | b |\n|:-|-:|\n| c | d |\n",
	"x[^1] ~~s~~ \"q\" -- ...\n\n[^1]: y\n\nt\n: d\n",
	"> q\n\n---\n\n*e* **s** `c`\n",
}

func wfaultSweep(p *wfaultParams, st *Stats, run int, ti int, cfg Config, r *Rng) {
	T := []byte(sweepTemplates[ti])
	Rt, ok := wfaultRef(cfg, [][]byte{T}, Op{Kind: "Convert", Doc: 0})
	if !ok {
		st.Inc("control_failed")
		return
	}
	const bufSize = 4096
	over := len("<p>") + len("</p>\n")
	for n := bufSize - over - len(Rt) - 2; n <= bufSize-over+1; n++ {
		if stopAtFirst && len(st.Violations) > 0 {
			return
		}
		doc := append(append([]byte(strings.Repeat("x", n)), "\n\n"...), T...)
		docs := [][]byte{doc}
		for _, stack := range []string{"W1", "W2:4096", "W2p:4096", pick(r, []string{"W1b", "W1s", "W1f", "W1r"})} {
			base := Op{Kind: pick(r, []string{"Convert", "ParseRender"}), Doc: 0, Stack: stack}
			R, ok := wfaultRef(cfg, docs, base)
			if !ok {
				st.Inc("control_failed")
				continue
			}
			st.Inc("sweep_groups")
			plans := []*FaultPlan{nil, {Kind: "always"}, {Kind: "short+err", K: 0}, {Kind: "short+err", K: 1}, {Kind: "short+err", K: bufSize - 1}, {Kind: "short+err", K: bufSize}, {Kind: "short+err", K: bufSize + 1},
				{Kind: "zero+err", J: 0}, {Kind: "zero+err", J: 1}, {Kind: "full+err", J: 0}, {Kind: "full+err", J: 1},
				{Kind: "transient", J: 0, Shape: "zero"}, {Kind: "transient", J: 0, Shape: "short"}, {Kind: "transient", J: 1, Shape: "zero"}, {Kind: "short+nil", J: 0}}
			for _, f := range plans {
				op := base
				op.Fault = f
				v := wfaultOne(cfg, docs, op, R, st)
				if f != nil && f.Kind != "short+nil" {
					st.Inc("probe.sweep_faulted")
				}
				if v != nil && p.ctl != nil {
					p.ctl.capture(&RunSpec{Property: p.prop, Engine: "wfault", VerifSeed: p.verifSeed, Run: run, Cfg: cfg, Docs: docs, Clients: [][]Op{{op}}}, v)
					return
				}
				if v != nil {
					st.Inc("violations_seen")
					if len(st.Violations) < p.maxVio {
						sp := &RunSpec{Property: p.prop, Engine: "wfault", VerifSeed: p.verifSeed, Run: run,
							RunSeed: fmt.Sprintf("%#x", runSeed(p.verifSeed, "wfault", run)), Cfg: cfg, Docs: docs, Clients: [][]Op{{op}}}
						reportViolation(sp, v, st, p.replayDir, !p.noMinimise)
					}
					return
				}
				if hung {
					return
				}
			}
		}
	}
}

// ---- length sweep ------------------------------------------------------------------------------
//
// Outputs of EVERY length from 9 bytes up to 1 300 (thorough: 9 000, i.e. past two buffer
// sizes), as one paragraph and as a paragraph followed by a thematic break (so that the last
// piece written is small), each with the fault plans whose outcome depends on where the output
// ends: whatever switches buffers, paths or strategies at some output size - not only at
// goldmark's 4096 - has one length at which the switch coincides with the end of the output.

const lengthSweepChunks = 16

func wfaultLengthSweep(p *wfaultParams, st *Stats, run int, chunk int) {
	maxLen := 1300
	if p.tier == "thorough" {
		maxLen = 9000
	}
	cfg := Config{}
	for L := 9 + chunk; L <= maxLen; L += lengthSweepChunks {
		if stopAtFirst && len(st.Violations) > 0 || hung {
			return
		}
		for variant := 0; variant < 2; variant++ {
			doc := []byte(strings.Repeat("x", L-8) + "\n")
			if variant == 1 {
				if L < 16 {
					continue
				}
				doc = []byte(strings.Repeat("x", L-8-5) + "\n\n---\n") // ... + "<hr>\n"
			}
			docs := [][]byte{doc}
			for _, stack := range []string{"W1", "W1s", "W2:64", "W3"} {
				base := Op{Kind: "Convert", Doc: 0, Stack: stack}
				if (L+variant)%3 == 0 {
					base.Kind = "ParseRender"
				}
				R, ok := wfaultRef(cfg, docs, base)
				if !ok {
					st.Inc("control_failed")
					continue
				}
				st.Inc("length_sweep_groups")
				plans := []*FaultPlan{nil, {Kind: "always"}, {Kind: "short+err", K: 0}, {Kind: "short+err", K: len(R) / 2}, {Kind: "short+err", K: len(R) - 1},
					{Kind: "zero+err", J: 0}, {Kind: "full+err", J: 0}, {Kind: "transient", J: 0, Shape: "zero"}}
				for _, f := range plans {
					op := base
					op.Fault = f
					v := wfaultOne(cfg, docs, op, R, st)
					if f != nil {
						st.Inc("probe.length_sweep_faulted")
					}
					if v != nil && p.ctl != nil {
						p.ctl.capture(&RunSpec{Property: p.prop, Engine: "wfault", VerifSeed: p.verifSeed, Run: run, Cfg: cfg, Docs: docs, Clients: [][]Op{{op}}}, v)
						return
					}
					if v != nil {
						st.Inc("violations_seen")
						if len(st.Violations) < p.maxVio {
							sp := &RunSpec{Property: p.prop, Engine: "wfault", VerifSeed: p.verifSeed, Run: run,
								RunSeed: fmt.Sprintf("%#x", runSeed(p.verifSeed, "wfault", run)), Cfg: cfg, Docs: docs, Clients: [][]Op{{op}}}
							reportViolation(sp, v, st, p.replayDir, !p.noMinimise)
						}
						return
					}
					if hung {
						return
					}
				}
			}
		}
	}
}

// nearBoundary keeps the interesting offsets when striding a large output: both ends and
// +-8 around every multiple of goldmark's internal buffer size and of the W2 sizes.
func nearBoundary(k, L int) bool {
	if k < 16 || k > L-16 {
		return true
	}
	for _, m := range []int{4096, 64, 65536} {
		d := k % m
		if m == 64 {
			if k < 256 && (d < 2 || d > 62) {
				return true
			}
			continue
		}
		if d <= 8 || d >= m-8 {
			return true
		}
	}
	return false
}

func clipStr(b []byte, n int) string {
	if len(b) > n {
		return string(b[:n]) + fmt.Sprintf("…(%d bytes)", len(b))
	}
	return string(b)
}

// wfaultWorker: shard `shard` of `of`. Work = corpus documents (enumerated), seeded
// generated documents, and large documents.
func wfaultWorker(p *wfaultParams, st *Stats) {
	c := loadCorpus()
	type item struct {
		doc    []byte
		stride int
		large  bool
	}
	var items []item
	g := NewRng(runSeed(p.verifSeed, "wfault-docs", 0))
	maxL := 2500
	for _, d := range c.All {
		items = append(items, item{doc: d, stride: 1})
	}
	nGen, nLarge, largeStride := 300, 4, 23
	if p.tier == "thorough" {
		nGen, nLarge, largeStride = 3000, 24, 1
		maxL = 1 << 30
	}
	for i := 0; i < nGen; i++ {
		items = append(items, item{doc: genAnyDoc(g, c), stride: 1})
	}
	for i := 0; i < nLarge; i++ {
		target := pick(g, []int{3000, 6000, 12000})
		if p.tier == "thorough" {
			target = pick(g, []int{3000, 6000, 12000, 30000, 60000})
		}
		items = append(items, item{doc: genLarge(g, c, target), stride: largeStride, large: true})
	}
	// documents with one chunk larger than goldmark's internal buffer
	nLongLine := 8
	if p.tier == "thorough" {
		nLongLine = 60
	}
	firstLongLine := len(items)
	for i := 0; i < nLongLine; i++ {
		items = append(items, item{doc: genLongLine(g), stride: largeStride, large: true})
	}
	allOn := Config{GFM: true, DefList: true, Footnote: true, Typographer: true, CJK: "default", AutoID: true, Attribute: true}
	if p.ctl == nil {
		curProc = &ProcHistory{Tier: p.tier, Shard: p.shard, Of: p.of}
	}
	// boundary sweep: item numbers after the documents
	for ti := range sweepTemplates {
		i := len(items) + ti
		if i%p.of != p.shard || p.ctl != nil && (i < p.ctl.from || i > p.ctl.until) {
			continue
		}
		r := NewRng(runSeed(p.verifSeed, "wfault-sweep", i))
		cfg := allOn
		if r.Chance(1, 2) {
			cfg.XHTML = true
		}
		wfaultSweep(p, st, i, ti, cfg, r)
	}
	// length sweep: item numbers after the boundary sweep
	for ci := 0; ci < lengthSweepChunks; ci++ {
		i := len(items) + len(sweepTemplates) + ci
		if i%p.of != p.shard || p.ctl != nil && (i < p.ctl.from || i > p.ctl.until) {
			continue
		}
		wfaultLengthSweep(p, st, i, ci)
	}
	for i, it := range items {
		if i%p.of != p.shard {
			continue
		}
		if stopAtFirst && len(st.Violations) > 0 {
			break
		}
		if p.ctl != nil && (i < p.ctl.from || i > p.ctl.until) {
			continue
		}
		r := NewRng(runSeed(p.verifSeed, "wfault", i))
		cfgs := []Config{allOn}
		if r.Chance(1, 2) || p.tier == "thorough" {
			cfgs = append(cfgs, genConfig(r, "any"))
		}
		if r.Chance(1, 3) {
			cfgs[0] = Config{}
		}
		if i >= firstLongLine && r.Chance(2, 3) {
			cfgs[0].Unsafe = true // raw HTML lines are written in one piece
		}
		if r.Split("err-renderer").Chance(1, 3) {
			// the caller's own node renderers return the error of their writes: Render's
			// early-return exit path
			cfgs[0].ErrRenderer = true
		}
		for _, cfg := range cfgs {
			paths := []string{"Convert", "ParseRender"}
			if cfg.IsDefault() {
				paths = append(paths, "PkgConvert")
			}
			if r.Split("render-child").Chance(1, 3) || p.tier == "thorough" {
				paths = append(paths, "RenderChild")
			}
			stacks := []string{"W1", fmt.Sprintf("W2:%d", pick(r, w2Sizes)), "W3", pick(r, []string{"W1f", "W1s", "W1b", "W1r", fmt.Sprintf("W2p:%d", pick(r, w2Sizes))})}
			if cfg.ErrRenderer {
				// destinations that do not remember errors: judged where goldmark can see the failure
				stacks = append(stacks, pick(r.Split("non-sticky"), []string{"W4", "W4", "W5:16", "W5:64", "W5d:16", "W5p:16", "W5p:64"}))
			}
			if p.tier == "thorough" {
				stacks = []string{"W1", "W2:16", "W2:17", "W2:64", "W2:4096", "W2:65536", "W3", "W1f", "W1s", "W1b", "W1r", "W2p:17", "W2p:64", "W2p:4096", "W4", "W5:16", "W5:4096", "W5d:64", "W5p:16", "W5p:4096"}
			}
			exPi, exSi := r.Intn(len(paths)), r.Intn(len(stacks))
			for pi, kind := range paths {
				for si, stack := range stacks {
					stride := it.stride
					if p.tier == "thorough" && it.large && !(pi == exPi && si == exSi) {
						// thorough: every offset of a large output on one (path, stack) pair per
						// document and configuration, the other pairs strided (boundaries kept)
						stride = 23
					}
					if p.tier != "thorough" {
						// quick: full enumeration on one (path, stack) pair per document chosen by
						// seed, the other pairs strided; all pairs see the boundaries
						if !(pi == exPi && si == exSi) && stride == 1 {
							stride = 5
						}
						if it.large && !(kind == "Convert") {
							continue
						}
					}
					if len(it.doc) > maxL && !it.large {
						stride = 7
					}
					// every offset, whatever the output length: in the quick tier only for small
					// documents on the seeded pair; in the thorough tier for every small document and for
					// the large ones on the seeded pair
					exhaustive := stride == 1 && (len(it.doc) <= 1500 || p.tier == "thorough" && pi == exPi && si == exSi)
					t0 := time.Now()
					wfaultGroup(p, st, i, cfg, it.doc, kind, stack, r, stride, exhaustive)
					if el := time.Since(t0); el > 3*time.Second && os.Getenv("VERIF_SLOW") != "" {
						fmt.Fprintf(os.Stderr, "SLOW item %d %s %s %s: %v, %d source bytes: %q\n", i, cfg.Key(), kind, stack, el, len(it.doc), clipStr(it.doc, 40))
					}
					if it.large {
						st.Inc("large_groups")
					}
				}
			}
		}
	}
}
