package main

import (
	"fmt"
	"regexp"
	"strings"

	"github.com/yuin/goldmark"
	gast "github.com/yuin/goldmark/ast"
	"github.com/yuin/goldmark/extension"
	"github.com/yuin/goldmark/parser"
	"github.com/yuin/goldmark/renderer"
	"github.com/yuin/goldmark/renderer/html"
	"github.com/yuin/goldmark/util"
)

// Config is one point of the built-in configuration lattice. It is stored verbatim in
// replay files, so a replay never depends on how the generator numbers configurations.
type Config struct {
	GFM         bool   `json:"gfm,omitempty"`
	TableAlign  string `json:"table_align,omitempty"` // "", "style", "attribute", "none" (only with GFM)
	DefList     bool   `json:"deflist,omitempty"`
	Footnote    bool   `json:"footnote,omitempty"`
	Typographer bool   `json:"typographer,omitempty"`
	CJK         string `json:"cjk,omitempty"` // "", "default", "css3", "escaped"
	AutoID      bool   `json:"auto_heading_id,omitempty"`
	Attribute   bool   `json:"attribute,omitempty"`
	FootnoteOpt string `json:"footnote_opt,omitempty"` // "", "prefix", "prefixfn", "titles", "both" (only with Footnote)
	// OptsVia "renderer": the renderer-side options of extensions (footnote ids/titles, table
	// alignment) are not given to NewFootnote/NewTable but passed, all together, through
	// goldmark.WithRendererOptions — the renderer hands them to the node renderers in the
	// iteration order of a map
	OptsVia  string `json:"opts_via,omitempty"`
	TypoSubs bool   `json:"typographer_subs,omitempty"` // custom substitutions (only with Typographer)
	// TypoAll: with TypoSubs, EVERY punctuation of the typographer gets a substitution of its
	// own (a map with eleven entries: whatever one entry does to another shows in some order of
	// the map's iteration)
	TypoAll bool `json:"typographer_all_subs,omitempty"`
	// TypoShort: with TypoSubs, the substitutions are the typographic characters themselves as
	// raw UTF-8 (2-3 bytes each, given as []byte cut from ONE table of the caller's), not entities
	TypoShort bool `json:"typographer_short_subs,omitempty"`
	// ParserLists: the parser is assembled by the caller from the built-in lists instead of
	// left to goldmark.New: "shared-base" - every instance built by this process passes the SAME
	// base slice (built once, with spare capacity, as append(DefaultInlineParsers(), x) leaves
	// it) to parser.WithInlineParsers; "no-rawhtml" - the list returned by DefaultInlineParsers()
	// is edited in place (util.PrioritizedSlice.Remove) before it is passed on
	ParserLists string `json:"parser_lists,omitempty"`
	LinkifyOpt  string `json:"linkify_opt,omitempty"` // "", "protocols", "regexp" (only with GFM)
	Unsafe      bool   `json:"unsafe,omitempty"`
	XHTML       bool   `json:"xhtml,omitempty"`
	HardWraps   bool   `json:"hardwraps,omitempty"`
	// ErrRenderer: the caller registers node renderers of its own (thematic break, fenced code
	// block, emphasis) that, unlike the built-in ones, look at the result of their writes and
	// return the error: Render's early-return exit path ("an early return on a node-renderer
	// error", C14's anchor text)
	ErrRenderer bool `json:"err_renderer,omitempty"`
	// HeadingAttr: parser.WithHeadingAttribute() (attributes on headings only) instead of / next to WithAttribute
	HeadingAttr bool `json:"heading_attribute,omitempty"`
	// ExtHTMLOpts: html options handed to the extension renderers themselves
	// (WithTableHTMLOptions / WithFootnoteHTMLOptions: XHTML, Unsafe for those renderers only)
	ExtHTMLOpts bool `json:"ext_html_opts,omitempty"`
	// HTMLWriter "escaped": html.WithWriter(html.NewWriter(html.WithEscapedSpace())), a text writer
	// of the caller's own instead of the package-level html.DefaultWriter
	HTMLWriter string `json:"html_writer,omitempty"`
}

func (c Config) Key() string {
	var b strings.Builder
	f := func(on bool, s string) {
		if on {
			b.WriteString(s)
			b.WriteByte(',')
		}
	}
	f(c.GFM, "gfm")
	if c.GFM && c.TableAlign != "" {
		b.WriteString("align=" + c.TableAlign + ",")
	}
	f(c.DefList, "deflist")
	f(c.Footnote, "footnote")
	if c.Footnote && c.FootnoteOpt != "" {
		b.WriteString("fnopt=" + c.FootnoteOpt + ",")
	}
	if c.via() {
		b.WriteString("optsvia=" + c.OptsVia + ",")
	}
	f(c.Typographer, "typographer")
	f(c.Typographer && c.TypoSubs && !c.TypoAll && !c.TypoShort, "typosubs")
	f(c.Typographer && c.TypoSubs && c.TypoAll && !c.TypoShort, "typosubs=all")
	f(c.Typographer && c.TypoSubs && c.TypoShort, "typosubs=short")
	if c.ParserLists != "" {
		b.WriteString("parserlists=" + c.ParserLists + ",")
	}
	if c.GFM && c.LinkifyOpt != "" {
		b.WriteString("linkify=" + c.LinkifyOpt + ",")
	}
	if c.CJK != "" {
		b.WriteString("cjk=" + c.CJK + ",")
	}
	f(c.AutoID, "autoid")
	f(c.Attribute, "attribute")
	f(c.Unsafe, "unsafe")
	f(c.XHTML, "xhtml")
	f(c.HardWraps, "hardwraps")
	f(c.ErrRenderer, "errrenderer")
	f(c.HeadingAttr, "headingattr")
	f(c.ExtHTMLOpts && (c.GFM || c.Footnote), "exthtml")
	if c.HTMLWriter != "" {
		b.WriteString("htmlwriter=" + c.HTMLWriter + ",")
	}
	s := b.String()
	if s == "" {
		return "core"
	}
	return strings.TrimSuffix(s, ",")
}

// via: extension options travel through WithRendererOptions / WithParserOptions (only
// meaningful, and only part of the key, when there is such an option to deliver)
func (c Config) via() bool {
	return c.OptsVia == "renderer" && (c.Footnote && c.FootnoteOpt != "" || c.GFM && (c.TableAlign != "" || c.LinkifyOpt != ""))
}

func (c Config) IsDefault() bool { return c == Config{} }

// C15's statement: auto heading ids on, no explicit attribute syntax, safe mode (so that
// <hN> tags in the output can only come from the heading renderer).
func (c Config) C15Applies() bool { return c.AutoID && !c.Attribute && !c.HeadingAttr && !c.Unsafe }

// Build makes a brand new instance. Every call returns objects that share nothing with
// earlier ones except what goldmark itself shares at package level.
func (c Config) Build() goldmark.Markdown {
	var exts []goldmark.Extender
	var viaR []renderer.Option // extension options passed as renderer options
	var viaP []parser.Option   // ... and as parser options
	via := c.via()
	if c.GFM {
		if c.TableAlign == "" && c.LinkifyOpt == "" && !c.ExtHTMLOpts {
			exts = append(exts, extension.GFM)
		} else {
			var table, linkify goldmark.Extender = extension.Table, extension.Linkify
			if c.TableAlign != "" {
				m := extension.TableCellAlignDefault
				switch c.TableAlign {
				case "style":
					m = extension.TableCellAlignStyle
				case "attribute":
					m = extension.TableCellAlignAttribute
				case "none":
					m = extension.TableCellAlignNone
				default:
					panic("bad table_align " + c.TableAlign)
				}
				if via {
					viaR = append(viaR, extension.WithTableCellAlignMethod(m))
				} else if c.ExtHTMLOpts {
					table = extension.NewTable(extension.WithTableCellAlignMethod(m), extension.WithTableHTMLOptions(html.WithXHTML()))
				} else {
					table = extension.NewTable(extension.WithTableCellAlignMethod(m))
				}
			} else if c.ExtHTMLOpts {
				table = extension.NewTable(extension.WithTableHTMLOptions(html.WithXHTML()))
			}
			var lo []extension.LinkifyOption
			switch c.LinkifyOpt {
			case "":
			case "protocols":
				lo = append(lo, extension.WithLinkifyAllowedProtocols([]string{"http:", "https:", "ftp:", "custom:"}))
			case "regexp":
				lo = append(lo,
					extension.WithLinkifyAllowedProtocols([]string{"http:", "https:"}),
					extension.WithLinkifyURLRegexp(regexp.MustCompile(`^(?:http|https)://[-a-zA-Z0-9@:%._\+~#=]{1,256}\.[a-z]{2,8}(?:[/?#][^\s<]*)?`)),
					extension.WithLinkifyWWWRegexp(regexp.MustCompile(`^www\.[-a-zA-Z0-9]{1,64}\.[a-z]{2,8}(?:[/?#][^\s<]*)?`)),
					extension.WithLinkifyEmailRegexp(regexp.MustCompile(`^[a-zA-Z0-9.+_-]+@[a-zA-Z0-9-]+\.[a-zA-Z]{2,8}`)))
			default:
				panic("bad linkify_opt " + c.LinkifyOpt)
			}
			switch {
			case len(lo) == 0:
			case via: // linkify options handed to goldmark.WithParserOptions, the plain extension.Linkify in the list
				for _, o := range lo {
					viaP = append(viaP, o)
				}
			default:
				linkify = extension.NewLinkify(lo...)
			}
			exts = append(exts, table, extension.Strikethrough, linkify, extension.TaskList)
		}
	}
	if c.DefList {
		exts = append(exts, extension.DefinitionList)
	}
	if c.Footnote {
		var fo []extension.FootnoteOption
		switch c.FootnoteOpt {
		case "":
		case "prefix":
			fo = append(fo, extension.WithFootnoteIDPrefix("article12-"))
		case "prefixfn":
			fo = append(fo, extension.WithFootnoteIDPrefixFunction(footnotePrefixFn))
		case "both": // a fixed prefix and a function: the fixed prefix is documented to win
			fo = append(fo, extension.WithFootnoteIDPrefixFunction(footnotePrefixFn), extension.WithFootnoteIDPrefix("site-"))
		case "titles":
			fo = append(fo, extension.WithFootnoteLinkTitle("to ^^ (%%)"), extension.WithFootnoteBacklinkTitle("back %% of ^^"),
				extension.WithFootnoteLinkClass("fl"), extension.WithFootnoteBacklinkClass("bl"), extension.WithFootnoteBacklinkHTML("^"), extension.WithFootnoteIDPrefix("p-"))
		default:
			panic("bad footnote_opt " + c.FootnoteOpt)
		}
		if c.ExtHTMLOpts && !via {
			fo = append(fo, extension.WithFootnoteHTMLOptions(html.WithXHTML(), html.WithUnsafe()))
		}
		switch {
		case len(fo) == 0:
			exts = append(exts, extension.Footnote)
		case via:
			exts = append(exts, extension.Footnote)
			for _, o := range fo {
				viaR = append(viaR, o)
			}
		default:
			exts = append(exts, extension.NewFootnote(fo...))
		}
	}
	if c.Typographer {
		if c.TypoSubs && c.TypoShort {
			// one table of the caller's, the values cut from it
			t := []byte("\u2018\u2019\u201c\u201d\u2013\u2014\u2026\u00ab\u00bb\u2019")
			cut := func(i, n int) []byte { return t[i : i+n] }
			exts = append(exts, extension.NewTypographer(extension.WithTypographicSubstitutions(map[extension.TypographicPunctuation][]byte{
				extension.LeftSingleQuote: cut(0, 3), extension.RightSingleQuote: cut(3, 3), extension.LeftDoubleQuote: cut(6, 3), extension.RightDoubleQuote: cut(9, 3),
				extension.EnDash: cut(12, 3), extension.EmDash: cut(15, 3), extension.Ellipsis: cut(18, 3), extension.LeftAngleQuote: cut(21, 2),
				extension.RightAngleQuote: cut(23, 2), extension.Apostrophe: cut(25, 3)})))
		} else if c.TypoSubs && c.TypoAll {
			exts = append(exts, extension.NewTypographer(extension.WithTypographicSubstitutions(map[extension.TypographicPunctuation]string{
				extension.LeftSingleQuote: "&sbquo;", extension.RightSingleQuote: "&rsquo;<!--r-->", extension.LeftDoubleQuote: "&laquo;", extension.RightDoubleQuote: "&raquo;",
				extension.EnDash: "&ndash;<!--n-->", extension.EmDash: "&mdash;<!--m-->", extension.Ellipsis: "&hellip;<!--e-->", extension.LeftAngleQuote: "&lsaquo;",
				extension.RightAngleQuote: "&rsaquo;", extension.Apostrophe: "&apos;<!--a-->"})))
		} else if c.TypoSubs {
			exts = append(exts, extension.NewTypographer(extension.WithTypographicSubstitutions(map[extension.TypographicPunctuation]string{
				extension.LeftDoubleQuote: "&laquo;", extension.RightDoubleQuote: "&raquo;", extension.LeftSingleQuote: "&sbquo;", extension.EmDash: "--"})))
		} else {
			exts = append(exts, extension.Typographer)
		}
	}
	switch c.CJK {
	case "":
	case "default":
		exts = append(exts, extension.CJK)
	case "css3":
		exts = append(exts, extension.NewCJK(extension.WithEastAsianLineBreaks(extension.EastAsianLineBreaksCSS3Draft), extension.WithEscapedSpace()))
	case "escaped":
		exts = append(exts, extension.NewCJK(extension.WithEscapedSpace()))
	default:
		panic("bad cjk " + c.CJK)
	}
	popts := viaP
	if c.AutoID {
		popts = append(popts, parser.WithAutoHeadingID())
	}
	if c.Attribute {
		popts = append(popts, parser.WithAttribute())
	}
	if c.HeadingAttr {
		popts = append(popts, parser.WithHeadingAttribute())
	}
	var opts []goldmark.Option
	switch c.ParserLists {
	case "":
	case "shared-base":
		opts = append(opts, goldmark.WithParser(parser.NewParser(parser.WithBlockParsers(parser.DefaultBlockParsers()...),
			parser.WithInlineParsers(sharedInlineBase...), parser.WithParagraphTransformers(parser.DefaultParagraphTransformers()...))))
	case "no-rawhtml":
		ips := util.PrioritizedSlice(parser.DefaultInlineParsers()).Remove(parser.NewRawHTMLParser())
		opts = append(opts, goldmark.WithParser(parser.NewParser(parser.WithBlockParsers(parser.DefaultBlockParsers()...),
			parser.WithInlineParsers(ips...), parser.WithParagraphTransformers(parser.DefaultParagraphTransformers()...))))
	default:
		panic("bad parser_lists " + c.ParserLists)
	}
	opts = append(opts, goldmark.WithExtensions(exts...))
	if len(popts) > 0 {
		opts = append(opts, goldmark.WithParserOptions(popts...))
	}
	if len(viaR) > 0 {
		opts = append(opts, goldmark.WithRendererOptions(viaR...))
	}
	if c.Unsafe {
		opts = append(opts, goldmark.WithRendererOptions(html.WithUnsafe()))
	}
	if c.XHTML {
		opts = append(opts, goldmark.WithRendererOptions(html.WithXHTML()))
	}
	if c.HardWraps {
		opts = append(opts, goldmark.WithRendererOptions(html.WithHardWraps()))
	}
	switch c.HTMLWriter {
	case "":
	case "escaped":
		opts = append(opts, goldmark.WithRendererOptions(html.WithWriter(html.NewWriter(html.WithEscapedSpace()))))
	case "own":
		opts = append(opts, goldmark.WithRendererOptions(html.WithWriter(html.NewWriter())))
	default:
		panic("bad html_writer " + c.HTMLWriter)
	}
	if c.ErrRenderer {
		opts = append(opts, goldmark.WithRendererOptions(renderer.WithNodeRenderers(util.Prioritized(errPropRenderer{}, 100))))
	}
	return goldmark.New(opts...)
}

// sharedInlineBase: the one base list every "shared-base" instance of this process is built
// from, as a caller keeps it: the default inline parsers plus one more entry (a second, lower
// ranked registration of the auto link parser, which changes nothing), with the spare capacity
// append leaves behind.
var sharedInlineBase = append(parser.DefaultInlineParsers(), util.Prioritized(parser.NewAutoLinkParser(), 990))

// footnotePrefixFn: a pure function of the document the node belongs to, as a per-page prefix
// is, that differs between most documents: derived from the number of top-level blocks and
// the total length of the text segments.
func footnotePrefixFn(n gast.Node) []byte {
	d := n.OwnerDocument()
	if d == nil {
		return []byte("nodoc-")
	}
	sum := 0
	_ = gast.Walk(d, func(x gast.Node, entering bool) (gast.WalkStatus, error) {
		if t, ok := x.(*gast.Text); ok && entering {
			sum += t.Segment.Stop - t.Segment.Start
		}
		return gast.WalkContinue, nil
	})
	return []byte(fmt.Sprintf("page%d-%d-", d.ChildCount(), sum%97))
}

// genConfig draws a configuration. mode: "any", "c15" (AutoID, no Attribute, safe),
// "default" (the zero config, for the package-level goldmark.Convert path).
func genConfig(r *Rng, mode string) Config {
	if mode == "default" {
		return Config{}
	}
	var c Config
	// swarm: each feature is in or out per run; a share of runs is "all on" / "core".
	switch r.Intn(10) {
	case 0:
		// core only
	case 1:
		c = Config{GFM: true, DefList: true, Footnote: true, Typographer: true, CJK: "default"}
	default:
		c.GFM = r.Chance(1, 2)
		c.DefList = r.Chance(1, 3)
		c.Footnote = r.Chance(1, 2)
		c.Typographer = r.Chance(1, 2)
		if r.Chance(1, 4) {
			c.CJK = pick(r, []string{"default", "css3", "escaped"})
		}
	}
	if c.GFM && r.Chance(1, 2) {
		c.TableAlign = pick(r, []string{"style", "attribute", "none"})
	}
	// option streams of their own, so that older replay seeds keep their other choices
	ro := r.Split("ext-options")
	if c.GFM && ro.Chance(1, 4) {
		c.LinkifyOpt = pick(ro, []string{"protocols", "regexp"})
	}
	if c.Footnote && ro.Chance(1, 3) {
		c.FootnoteOpt = pick(ro, []string{"prefix", "prefixfn", "titles"})
	}
	if rv := ro.Split("opts-via"); (c.Footnote && c.FootnoteOpt != "" || c.GFM && (c.TableAlign != "" || c.LinkifyOpt != "")) && rv.Chance(1, 3) {
		c.OptsVia = "renderer"
		if c.Footnote && rv.Chance(1, 3) {
			c.FootnoteOpt = "both"
		}
	}
	if c.Typographer && ro.Chance(1, 4) {
		c.TypoSubs = true
		c.TypoAll = ro.Split("typo-all").Chance(1, 2)
		c.TypoShort = ro.Split("typo-short").Chance(1, 3)
	}
	c.AutoID = r.Chance(1, 2)
	c.Attribute = r.Chance(1, 3)
	c.Unsafe = r.Chance(1, 3)
	c.XHTML = r.Chance(1, 3)
	c.HardWraps = r.Chance(1, 4)
	// a stream of its own again (session 4): the caller's own node renderers / text writer,
	// heading-only attributes, html options for the extension renderers
	r4 := r.Split("ext-options-4")
	c.ErrRenderer = r4.Chance(1, 4)
	c.HeadingAttr = r4.Chance(1, 6)
	c.ExtHTMLOpts = (c.GFM || c.Footnote) && r4.Chance(1, 5)
	if r4.Chance(1, 6) {
		c.HTMLWriter = pick(r4, []string{"escaped", "own"})
	}
	if r5 := r.Split("parser-lists"); r5.Chance(1, 8) {
		c.ParserLists = pick(r5, []string{"shared-base", "shared-base", "no-rawhtml"})
	}
	if mode == "c15" {
		c.AutoID = true
		c.Attribute = false
		c.HeadingAttr = false
		c.Unsafe = false
	}
	return c
}

func (c Config) String() string { return fmt.Sprintf("cfg{%s}", c.Key()) }

// parserSide: c with everything that only configures the renderer side cleared.
func parserSide(c Config) Config {
	c.Unsafe, c.XHTML, c.HardWraps = false, false, false
	c.TableAlign, c.FootnoteOpt, c.OptsVia = "", "", ""
	c.ErrRenderer, c.ExtHTMLOpts, c.HTMLWriter = false, false, ""
	if c.CJK != "" {
		c.CJK = "default"
	}
	return c
}

// configVariant: the same extensions as c with other options (extension options, the way they
// are delivered, parser options). Two instances of c and of its variant used in one process,
// or at the same time, give whatever they share below the surface conflicting settings.
func configVariant(r *Rng, c Config, c15 bool) Config {
	v := c
	for i := 0; i < 6 && (v == c || r.Chance(1, 2)); i++ {
		switch r.Intn(11) {
		case 8:
			v.ErrRenderer = !v.ErrRenderer
		case 9:
			if !c15 {
				v.HeadingAttr = !v.HeadingAttr
			}
		case 10:
			if r.Chance(1, 2) {
				v.HTMLWriter = pick(r, []string{"", "escaped", "own"})
			} else if c.GFM || c.Footnote {
				v.ExtHTMLOpts = !v.ExtHTMLOpts
			}
		case 0:
			if c.GFM {
				v.LinkifyOpt = pick(r, []string{"", "protocols", "regexp"})
			}
		case 1:
			if c.Footnote {
				v.FootnoteOpt = pick(r, []string{"", "prefix", "prefixfn", "titles", "both"})
			}
		case 2:
			if c.Typographer {
				v.TypoSubs = !v.TypoSubs
				v.TypoAll = v.TypoSubs && r.Chance(1, 2)
				v.TypoShort = v.TypoSubs && r.Chance(1, 3)
			}
		case 3:
			if c.GFM {
				v.TableAlign = pick(r, []string{"", "style", "attribute", "none"})
			}
		case 4:
			v.OptsVia = pick(r, []string{"", "renderer"})
		case 5:
			if !c15 {
				v.Attribute = !v.Attribute
			}
		case 6:
			if !c15 {
				v.AutoID = !v.AutoID
			}
		default:
			if c.CJK != "" {
				v.CJK = pick(r, []string{"default", "css3", "escaped"})
			}
		}
	}
	return v
}

// rendererVariant returns a configuration whose PARSER side is exactly c's and whose renderer
// side differs: renderer options (Unsafe, XHTML, HardWraps) and the renderer-only options of
// extensions (table cell alignment method, footnote ids / titles / classes, East Asian line
// break style; see each extension's Extend). A tree parsed under c and rendered by the
// Renderer of the variant must give what the variant gives for the source.
func rendererVariant(r *Rng, c Config) Config {
	v := c
	for i := 0; i < 8 && v == c; i++ {
		switch r.Intn(9) {
		case 6:
			v.ErrRenderer = !v.ErrRenderer
		case 7:
			if c.GFM || c.Footnote {
				v.ExtHTMLOpts = !v.ExtHTMLOpts
			}
		case 8:
			v.HTMLWriter = pick(r, []string{"", "escaped", "own"})
		case 0:
			v.Unsafe = !v.Unsafe
		case 1:
			v.XHTML = !v.XHTML
		case 2:
			v.HardWraps = !v.HardWraps
		case 3:
			if c.GFM {
				v.TableAlign = pick(r, []string{"", "style", "attribute", "none"})
			}
		case 4:
			if c.Footnote {
				v.FootnoteOpt = pick(r, []string{"", "prefix", "prefixfn", "titles", "both"})
				v.OptsVia = pick(r, []string{"", "renderer"})
			}
		case 5:
			if c.CJK != "" { // all three have the escaped-space parser option
				v.CJK = pick(r, []string{"default", "css3", "escaped"})
			}
		}
	}
	if r.Chance(1, 3) {
		v.XHTML = !v.XHTML
	}
	return v
}

// errPropRenderer: node renderers of the caller's own which, unlike the built-in ones, look at
// the result of every write and return the first error (stateless: it is shared by every
// goroutine that uses the instance). With them Render leaves through its early-return path
// when the destination fails while one of these nodes is being written.
type errPropRenderer struct{}

func (errPropRenderer) RegisterFuncs(reg renderer.NodeRendererFuncRegisterer) {
	reg.Register(gast.KindThematicBreak, func(w util.BufWriter, source []byte, n gast.Node, entering bool) (gast.WalkStatus, error) {
		if !entering {
			return gast.WalkContinue, nil
		}
		if m, ok := w.(checkedMarker); ok {
			m.checked(1)
			defer m.checked(-1)
		}
		if _, err := w.WriteString("<hr class=\"own\">"); err != nil {
			return gast.WalkStop, err
		}
		if err := w.WriteByte('\n'); err != nil {
			return gast.WalkStop, err
		}
		return gast.WalkContinue, nil
	})
	reg.Register(gast.KindFencedCodeBlock, func(w util.BufWriter, source []byte, n gast.Node, entering bool) (gast.WalkStatus, error) {
		if m, ok := w.(checkedMarker); ok {
			m.checked(1)
			defer m.checked(-1)
		}
		if !entering {
			_, err := w.WriteString("</code></pre>\n")
			return gast.WalkContinue, err
		}
		if _, err := w.WriteString("<pre class=\"own\"><code>"); err != nil {
			return gast.WalkStop, err
		}
		ls := n.Lines()
		for i := 0; i < ls.Len(); i++ {
			seg := ls.At(i)
			if _, err := w.Write(util.EscapeHTML(seg.Value(source))); err != nil {
				return gast.WalkStop, fmt.Errorf("own code block renderer, line %d: %w", i, err)
			}
		}
		return gast.WalkContinue, nil
	})
	reg.Register(gast.KindEmphasis, func(w util.BufWriter, source []byte, n gast.Node, entering bool) (gast.WalkStatus, error) {
		if m, ok := w.(checkedMarker); ok {
			m.checked(1)
			defer m.checked(-1)
		}
		tag := "em"
		if n.(*gast.Emphasis).Level == 2 {
			tag = "strong"
		}
		var err error
		if entering {
			_, err = w.WriteString("<" + tag + " class=\"own\">")
		} else {
			_, err = w.WriteString("</" + tag + ">")
		}
		return gast.WalkContinue, err
	})
}
