package main

import (
	"bytes"
	"fmt"
	"regexp"
	"runtime"
	"runtime/debug"
	"strings"
	"sync/atomic"
	"time"
)

// Engine hist — one long-lived instance, a seeded history of operations, every
// operation compared with the reference model. Decides C06 and the history clause of C15.

var refModel = NewRefModel(0x5eed)

var suffixRe = regexp.MustCompile(`^(.*)-(\d+)$`)

// histProgress: index of the operation the history in execution has reached (written by the
// goroutine running execHist, read by the watchdog of execHistDeadline).
var histProgress atomic.Int64

// execHistDeadline runs a history under a hang watchdog: an operation that has not returned
// after hangAfter (a conversion takes milliseconds) is reported as class "hang" at that
// operation - a call that neither returns an error nor succeeds, typically because an earlier
// call that failed half way left a lock held. The stuck goroutine cannot be stopped; the
// worker reports and stops (see histWorker), as the wfault engine does.
func execHistDeadline(spec *RunSpec, st *Stats) *Violation {
	if hung {
		return nil
	}
	ch := make(chan *Violation, 1)
	histProgress.Store(-1)
	go func() { ch <- execHist(spec, st) }()
	tick := time.NewTicker(time.Second)
	defer tick.Stop()
	last, same := int64(-2), 0
	for {
		select {
		case v := <-ch:
			return v
		case <-tick.C:
			cur := histProgress.Load()
			if cur != last {
				last, same = cur, 0
				continue
			}
			same++
			if time.Duration(same)*time.Second >= hangAfter {
				hung = true
				op := int(cur)
				if op < 0 {
					op = 0
				}
				desc := ""
				if op < len(spec.Clients[0]) {
					desc = " (" + spec.Clients[0][op].String() + ")"
				}
				return &Violation{Class: "hang", Client: 0, Op: op,
					Detail: fmt.Sprintf("operation %d%s of the history did not return within %v (alone on a fresh instance it takes milliseconds): neither an error nor success is reported", op, desc, hangAfter)}
			}
		}
	}
}

func execHist(spec *RunSpec, st *Stats) *Violation {
	if len(spec.Clients) != 1 {
		panic("hist spec must have exactly one client")
	}
	ops := spec.Clients[0]
	if strings.HasPrefix(spec.Note, "gap run, 2^15") {
		refModel.quiet = true
		defer func() { refModel.quiet = false }()
	}
	if len(ops) > 300 {
		// the worker runs with the automatic collector off (collections are simulator events at
		// fixed run indexes); a history of thousands of calls allocates gigabytes by itself, so
		// it gets the collector back for its duration
		defer debug.SetGCPercent(debug.SetGCPercent(100))
	}
	env := newEnv(spec.Cfg, spec.Docs)
	trees := map[int]*treeHandle{}
	fps := map[*treeHandle]uint64{}
	c15 := spec.Property == "C15"
	c14 := spec.Property == "C14"
	prevFailed := false
	var prevDoc = -1
	for i, op := range ops {
		histProgress.Store(int64(i))
		res := execOp(env, trees, 0, i, op, nil)
		if res.Skipped {
			continue
		}
		if st != nil {
			st.Inc("ops")
			st.Inc("op." + op.Kind)
			st.Inc("steps")
			if prevFailed {
				st.Inc("probe.ops_after_failed_op")
			}
			if op.Doc == prevDoc {
				st.Inc("probe.same_doc_back_to_back")
			}
			if op.Reuse {
				st.Inc("probe.caller_reuses_read_buffer")
			}
		}
		prevDoc = op.Doc
		if res.Panic != "" {
			// a panic is attributed to the history only if the same call does not panic alone on
			// a fresh instance (an input the library cannot handle at all is C01's subject)
			pcfg := spec.Cfg
			if op.Kind == "PkgConvert" {
				pcfg = Config{}
			}
			if (op.Kind == "AuxConvert" || op.Kind == "RenderOther") && op.Aux != nil {
				pcfg = *op.Aux
			}
			psrc := env.pristine(op.Doc)
			if res.Tree != nil {
				psrc = env.pristine(res.Tree.doc)
			}
			if op.Kind != "Walk" && op.Kind != "GC" && refModel.Get(pcfg, psrc).out == nil {
				if st != nil {
					st.Inc("diag.panic_also_alone")
				}
				prevFailed = false
				continue
			}
			return &Violation{Class: "panic", Client: 0, Op: i, Detail: "panic: " + firstLine(res.Panic)}
		}
		switch op.Kind {
		case "Parse", "ParseOnly":
			if c15 && spec.Cfg.C15Applies() {
				ref := refModel.Get(spec.Cfg, env.pristine(op.Doc))
				if ref.out != nil && countHeadings(res.Tree.node) != len(ref.ids) && st != nil {
					st.Trouble = append(st.Trouble, fmt.Sprintf("observer disagreement: %d Heading nodes but %d <hN> tags for %q", countHeadings(res.Tree.node), len(ref.ids), env.src(op)))
				}
			}
			prevFailed = false
			continue
		case "GC":
			if st != nil {
				st.Inc("fired.gc")
			}
			continue
		case "Walk":
			fp := res.Walked
			if old, ok := fps[res.Tree]; ok && old != fp && st != nil {
				st.Inc("diag.tree_fingerprint_changed")
			}
			fps[res.Tree] = fp
			continue
		}
		if op.Fault != nil {
			// relaxed on purpose and narrowly: a faulted call only must not panic here (its own
			// result is C14's business); the operations after it carry the check.
			prevFailed = res.Sink.errCalls > 0
			if st != nil && prevFailed {
				st.Inc("fired." + res.Sink.fired)
			}
			if c14 {
				// C14 over histories: the clauses of C14 for a faulted call on a LONG-USED instance,
				// possibly right after other calls failed (with other destinations and error values)
				cfg := spec.Cfg
				if op.Kind == "PkgConvert" {
					cfg = Config{}
				}
				if op.Kind == "AuxConvert" || op.Kind == "RenderOther" {
					cfg = *op.Aux
				}
				src := env.pristine(op.Doc)
				if res.Tree != nil {
					src = env.pristine(res.Tree.doc)
				}
				ref := refModel.Get(cfg, src)
				if ref.out == nil {
					continue
				}
				if st != nil {
					st.Inc("hist.c14_faulted_ops_judged")
				}
				if v := checkFaulted(&res, ref.out); v != nil {
					v.Client, v.Op = 0, i
					return v
				}
			}
			continue
		}
		prevFailed = false
		cfg := spec.Cfg
		if op.Kind == "PkgConvert" {
			cfg = Config{}
		}
		if op.Kind == "AuxConvert" || op.Kind == "RenderOther" {
			cfg = *op.Aux
		}
		src := env.pristine(op.Doc)
		if res.Tree != nil {
			src = env.pristine(res.Tree.doc)
		}
		ref := refModel.Get(cfg, src)
		if ref.out == nil {
			if st != nil {
				st.Inc("ref_failed")
			}
			continue
		}
		isRerender := (op.Kind == "Render" || op.Kind == "RenderOther") && res.Tree.renders >= 2
		if st != nil {
			st.Inc("checked_ops")
			if isRerender {
				st.Inc("probe.rerenders")
			}
			if op.Kind == "RenderOther" {
				st.Inc("probe.renders_by_other_renderer")
			}
			if op.Kind == "Render" && res.Tree.otherRenders > 0 {
				st.Inc("probe.renders_after_other_renderer")
			}
			if op.Kind == "Render" && i-res.Tree.born > 5 {
				st.Inc("probe.stale_tree_renders")
			}
		}
		if !c15 {
			if res.Err != nil {
				return &Violation{Class: "unexpected-error", Client: 0, Op: i, Want: ref.out, Got: res.Out, Detail: fmt.Sprintf("non-failing writer, yet error %q", res.Err)}
			}
			if !bytes.Equal(res.Out, ref.out) {
				cl, d := "output-differs", "output on the long-lived instance differs from a fresh instance converting the same source alone"
				if isRerender {
					cl, d = "rerender-differs", fmt.Sprintf("render #%d of the same parsed tree differs from the reference output", res.Tree.renders)
				}
				if op.Kind == "RenderOther" {
					cl, d = "rerender-differs", fmt.Sprintf("render #%d of the parsed tree, by the Renderer of an instance configured %s (same parser side), differs from what that configuration gives for the source", res.Tree.renders, cfg)
				}
				return &Violation{Class: cl, Client: 0, Op: i, Want: ref.out, Got: res.Out, Detail: d}
			}
			continue
		}
		// ---- C15 ----
		if !cfg.C15Applies() {
			continue
		}
		if ref.c15 != nil {
			v := *ref.c15
			v.Client, v.Op = 0, i
			return &v
		}
		ids := ref.ids
		if !bytes.Equal(res.Out, ref.out) {
			var v *Violation
			ids, v = headingIDs(res.Out)
			if v != nil {
				v.Client, v.Op = 0, i
				return v
			}
			if !sameIDs(ids, ref.ids) {
				return &Violation{Class: "id-history-dependent", Client: 0, Op: i, Want: ref.out, Got: res.Out,
					Detail: fmt.Sprintf("heading ids %q on the long-lived instance, %q on a fresh instance", ids, ref.ids)}
			}
			if st != nil {
				st.Inc("diag.c15_output_differs_but_ids_equal")
			}
		}
		if st != nil {
			st.Add("c15.headings", int64(len(ids)))
			if len(ids) >= 2 {
				st.Inc("c15.docs_with_2plus_headings")
			}
			set := map[string]bool{}
			for _, id := range ids {
				set[id] = true
			}
			coll, deep := false, false
			for _, id := range ids {
				if m := suffixRe.FindStringSubmatch(id); m != nil && set[m[1]] {
					coll = true
					if suffixRe.MatchString(m[1]) {
						deep = true
					}
				}
			}
			if coll {
				st.Inc("probe.c15_docs_with_slug_collision")
			}
			if deep {
				st.Inc("probe.c15_docs_with_suffix_collision")
			}
		}
	}
	if st != nil {
		for d := range env.docs {
			if !bytes.Equal(env.docs[d], env.orig[d]) {
				st.Inc("diag.source_slice_modified_by_goldmark")
			}
		}
	}
	if !c15 && refModel.Unstable != nil {
		v := refModel.Unstable
		refModel.Unstable = nil
		v.Client, v.Op = 0, len(ops)-1
		return v
	}
	return nil
}

// ---- generation --------------------------------------------------------------------------

type histParams struct {
	prop       string
	verifSeed  uint64
	shard, of  int
	tier       string
	runs       int
	replayDir  string
	maxVio     int
	noMinimise bool
	ctl        *replayCtl
}

func genHistSpec(p *histParams, c *Corpus, run int) *RunSpec {
	seed := runSeed(p.verifSeed, "hist-"+p.prop, run)
	root := NewRng(seed)
	rc, rd, ro, rf := root.Split("config"), root.Split("docs"), root.Split("ops"), root.Split("faults")
	c15 := p.prop == "C15"
	faulty := run%2 == 1 // fault-free and fault-injecting histories are separate sub-batches
	c14 := p.prop == "C14"
	if c14 {
		faulty = true
	}
	mode := "any"
	if c15 {
		mode = "c15"
	}
	cfg := genConfig(rc, mode)
	if !c15 && rc.Chance(1, 8) {
		cfg = Config{}
	}
	maxOps, maxDocs := 40, 8
	if p.tier == "thorough" {
		maxOps, maxDocs = 200, 16
	}
	nOps := ro.Range(1, maxOps)
	if ro.Chance(1, 3) {
		nOps = ro.Range(1, 6) // many short histories
	}
	// a themed run: most documents exercise one kind of per-document state, and the
	// configuration has the extension (and often one of its options) that gives it meaning
	themed := !c15 && rd.Split("theme").Chance(1, 2)
	theme := pick(rd.Split("theme-pair"), leakPairs)
	if themed {
		rt := rd.Split("theme-cfg")
		cfg = biasConfig(rt, biasConfig(rt, cfg, theme[0]), theme[1])
	}
	// documents
	var docs [][]byte
	nDocs := rd.Range(1, maxDocs)
	for len(docs) < nDocs {
		switch {
		case themed && rd.Chance(2, 3):
			a, b := genLeakPairOf(rd, theme)
			docs = append(docs, a, b)
		case c15 && rd.Chance(3, 4):
			d := genHeadingDoc(rd)
			docs = append(docs, d)
			if rd.Chance(1, 3) {
				docs = append(docs, genHeadingDoc(rd))
			}
		case rd.Chance(6, 10):
			a, b := genLeakPair(rd)
			docs = append(docs, a, b)
		case p.tier == "thorough" && rd.Chance(1, 12):
			docs = append(docs, genLarge(rd, c, pick(rd, []int{3000, 9000, 20000})))
		default:
			docs = append(docs, genAnyDoc(rd, c))
		}
	}
	// same-shape runs: a document is followed by one of identical layout and different letters
	rsh := root.Split("same-shape")
	shapeRun := rsh.Chance(1, 5)
	if shapeRun {
		for i := 1; i < len(docs); i++ {
			if len(docs[i-1]) > 0 && rsh.Chance(1, 2) {
				docs[i] = sameShape(rsh, docs[i-1], rsh.Chance(2, 3))
			}
		}
	}
	note := ""
	// near-miss runs: a document is followed by itself with a blank inserted or removed inside or
	// next to a run of punctuation
	if rnm := root.Split("near-miss"); !shapeRun && rnm.Chance(1, 6) {
		for i := 1; i < len(docs); i++ {
			if len(docs[i-1]) > 0 && len(docs[i-1]) < 4000 && rnm.Chance(1, 2) {
				docs[i] = nearMiss(rnm, docs[i-1])
				note = "near-miss"
			}
		}
	}
	spec := &RunSpec{Property: p.prop, Engine: "hist", VerifSeed: p.verifSeed, Run: run, RunSeed: fmt.Sprintf("%#x", seed), Cfg: cfg, Docs: docs, Note: note}
	if rg := root.Split("gap-run"); rg.Chance(1, 50) {
		// c14: always a storm of failing calls; otherwise a storm in half of the fault-injecting runs
		genGapRun(rg, spec, c14 || faulty && rg.Chance(1, 2), p.tier == "thorough")
		return spec
	}
	var ops []Op
	liveTrees := []int{}
	nextDoc := 0
	docFor := func() int {
		// walk through the document list in order most of the time so that definer and
		// user of a leak pair are adjacent; sometimes jump
		if ro.Chance(3, 4) {
			d := nextDoc % len(docs)
			nextDoc++
			return d
		}
		return ro.Intn(len(docs))
	}
	reuseRun := ro.Split("reuse").Chance(1, 4) || shapeRun && rsh.Chance(1, 2) // in a quarter of the runs the caller reuses one read buffer
	for len(ops) < nOps {
		k := ro.Intn(100)
		stack := genStack(ro)
		ctx := ro.Chance(1, 5)
		ownCtx := !ctx && ro.Split("ownctx").Chance(1, 6) // the caller's own plain context, read after the call
		reuse := reuseRun && ro.Chance(3, 4)
		if ro.Split("gc").Chance(1, 600) {
			ops = append(ops, Op{Kind: "GC"})
		}
		switch {
		case c14 && k < 62 && ro.Chance(1, 2):
			// C14 histories: half of the calls meet a failing destination
			f := genFault(rf, 400)
			switch {
			case len(liveTrees) > 0 && ro.Chance(1, 3):
				ops = append(ops, Op{Kind: "Render", Tree: pick(ro, liveTrees), Stack: stack, Fault: f})
			case cfg.IsDefault() && ro.Chance(1, 3):
				ops = append(ops, Op{Kind: "PkgConvert", Doc: docFor(), Stack: stack, Ctx: ctx, Fault: f})
			case ro.Chance(1, 4):
				ops = append(ops, Op{Kind: "ParseRender", Doc: docFor(), Stack: stack, Ctx: ctx, Fault: f})
			default:
				ops = append(ops, Op{Kind: "Convert", Doc: docFor(), Stack: stack, Ctx: ctx, Fault: f})
			}
		case k < 34:
			ops = append(ops, Op{Kind: "Convert", Doc: docFor(), Stack: stack, Ctx: ctx, CtxPlain: ownCtx, Reuse: reuse})
		case k < 40:
			ops = append(ops, Op{Kind: "PkgConvert", Doc: docFor(), Stack: stack, Ctx: ctx, CtxPlain: ownCtx, Reuse: reuse})
		case k < 42:
			// an instance of another configuration is created and used between two uses of ours
			am := "any"
			if c15 && ro.Chance(1, 2) {
				am = "c15"
			}
			ac := genConfig(ro.Split("aux"), am)
			if ro.Chance(1, 3) {
				ac = Config{}
			} else if ro.Chance(1, 2) {
				ac = configVariant(ro.Split("aux-variant"), cfg, c15)
			}
			ops = append(ops, Op{Kind: "AuxConvert", Doc: docFor(), Stack: stack, Aux: &ac, Reuse: reuse})
		case k < 56:
			slot := ro.Intn(8)
			ops = append(ops, Op{Kind: "Parse", Doc: docFor(), Tree: slot, Ctx: ctx, CtxPlain: ownCtx, Reader: ro.Chance(1, 4)})
			liveTrees = append(liveTrees, slot)
		case k < 62:
			ops = append(ops, Op{Kind: "ParseRender", Doc: docFor(), Stack: stack, Ctx: ctx, CtxPlain: ownCtx, Reader: ro.Chance(1, 4), Reuse: reuse})
		case k < 84:
			if len(liveTrees) == 0 {
				continue
			}
			slot := pick(ro, liveTrees)
			ops = append(ops, Op{Kind: "Render", Tree: slot, Stack: stack})
			if ro.Chance(1, 3) { // re-render right away
				ops = append(ops, Op{Kind: "Render", Tree: slot, Stack: genStack(ro)})
			}
			if rv := ro.Split("render-other"); rv.Chance(1, 4) {
				// the same tree through the Renderer of an instance whose renderer side differs
				// (before, between or after renders by our own Renderer)
				v := rendererVariant(rv, cfg)
				o := Op{Kind: "RenderOther", Tree: slot, Stack: genStack(rv), Aux: &v}
				if rv.Chance(1, 2) && len(ops) > 0 {
					ops = append(ops[:len(ops)-1], o, ops[len(ops)-1])
				} else {
					ops = append(ops, o)
				}
			}
		case k < 88:
			if len(liveTrees) == 0 {
				continue
			}
			ops = append(ops, Op{Kind: "Walk", Tree: pick(ro, liveTrees)})
		default:
			if !faulty {
				continue
			}
			f := genFault(rf, 400)
			if len(liveTrees) > 0 && ro.Chance(1, 3) {
				ops = append(ops, Op{Kind: "Render", Tree: pick(ro, liveTrees), Stack: stack, Fault: f})
			} else {
				ops = append(ops, Op{Kind: "Convert", Doc: docFor(), Stack: stack, Ctx: ctx, Fault: f})
			}
		}
	}
	// Render ops have no Doc of their own; give them a valid index for bookkeeping.
	spec.Clients = [][]Op{ops}
	return spec
}

// gapSizes: numbers of calls between two uses of the same document. Whatever counts calls in
// a narrow integer, stamps entries with a generation number, or evicts after so many uses
// goes wrong at or next to a power of two (and only there).
var gapSizes = []int{0, 1, 2, 3, 7, 8, 9, 15, 16, 17, 31, 32, 33, 63, 64, 65, 127, 128, 129, 253, 254, 255, 256, 257, 258, 511, 512, 513}

// genGapRun: a long history of small calls in which the documents of the run come back
// after exactly g unrelated calls, g from gapSizes (thorough: also 1023..1025): D, g fillers,
// D, g' fillers, D ... The fillers share no heading text, label or footnote name with D
// (unique tokens) and are tiny, so that a run of a thousand calls costs milliseconds.
//
// storm: the calls in between all meet a failing destination (a storm of failed calls on one
// instance: whatever a failing call does not give back - a slot, a lock, a pooled buffer, a
// counter - adds up until the instance stops answering or answers wrongly).
func genGapRun(r *Rng, spec *RunSpec, storm, thorough bool) {
	nMain := len(spec.Docs)
	if nMain > 3 {
		nMain = 3
		spec.Docs = spec.Docs[:3]
	}
	for i, d := range spec.Docs {
		if len(d) > 1500 {
			spec.Docs[i] = d[:1500]
		}
	}
	// fillers
	nFill := r.Range(3, 9)
	for i := 0; i < nFill; i++ {
		u := uniq(r)
		var d string
		switch r.Intn(5) {
		case 0:
			d = "# " + u + "\n"
		case 1:
			d = u + "\n===\n\n[" + u + "]\n\n[" + u + "]: /" + u + "\n"
		case 2:
			d = "para " + u + "\n"
		case 3:
			d = "## " + u + "\n\ntext[^" + u + "]\n\n[^" + u + "]: note " + u + "\n"
		default:
			d = "- " + u + "\n- \"" + u + "\"\n"
		}
		spec.Docs = append(spec.Docs, []byte(d))
	}
	if rw := r.Split("wrap16"); !storm && rw.Chance(1, 8) {
		// a 15- or 16-bit counter of walks / renders / parses: one tree is rendered, then
		// (about) 2^15 or 2^16 minimal calls follow - renders of one tiny pooled tree (one walk
		// each, no parse) or conversions of a tiny document - then the old tree is rendered
		// again and its document converted again
		g := pick(rw, []int{1 << 15, 1 << 16, 1 << 16}) + rw.Intn(24) - 16
		filler := nMain + rw.Intn(nFill)
		ops := []Op{{Kind: "Parse", Doc: 0, Tree: 0}, {Kind: "Render", Tree: 0, Stack: "W1"}, {Kind: "Parse", Doc: filler, Tree: 1}}
		byRender := rw.Chance(2, 3)
		for i := 0; i < g; i++ {
			if byRender {
				ops = append(ops, Op{Kind: "Render", Tree: 1, Stack: "W3"})
			} else {
				ops = append(ops, Op{Kind: "Convert", Doc: filler, Stack: "W3"})
			}
		}
		ops = append(ops, Op{Kind: "Render", Tree: 0, Stack: "W1"}, Op{Kind: "Convert", Doc: 0, Stack: "W1"}, Op{Kind: "Render", Tree: 0, Stack: "W3"})
		spec.Clients = [][]Op{ops}
		spec.Note = "gap run, 2^15 / 2^16 minimal calls"
		return
	}
	var ops []Op
	use := func(d int) {
		switch r.Intn(4) {
		case 0:
			ops = append(ops, Op{Kind: "ParseRender", Doc: d, Stack: "W1"})
		default:
			ops = append(ops, Op{Kind: "Convert", Doc: d, Stack: pick(r, []string{"W1", "W1", "W3"})})
		}
	}
	budget := 1400
	gaps := gapSizes
	if thorough && r.Split("long-gaps").Chance(1, 3) {
		// thorough tier: 10-, 11- and 12-bit counters, tables of 1024 / 4096 entries
		budget = 9500
		gaps = []int{1022, 1023, 1024, 1025, 1026, 2047, 2048, 2049, 4094, 4095, 4096, 4097, 4098}
	}
	for rounds := r.Range(2, 6); rounds > 0 && len(ops) < budget; rounds-- {
		for d := 0; d < nMain; d++ {
			use(d)
		}
		g := pick(r, gaps) - (nMain - 1) // calls between two uses of the SAME main document
		if r.Chance(1, 2) {
			g = pick(r, gaps)
		}
		if g < 0 {
			g = 0
		}
		for i := 0; i < g && len(ops) < budget; i++ {
			o := Op{Kind: "Convert", Doc: nMain + r.Intn(nFill), Stack: "W1"}
			if storm {
				o.Stack = pick(r, []string{"W1", "W1", "W3", "W2:16"})
				switch r.Intn(4) {
				case 0:
					o.Fault = &FaultPlan{Kind: "always"}
				case 1:
					o.Fault = &FaultPlan{Kind: "zero+err", J: 0}
				case 2:
					o.Fault = &FaultPlan{Kind: "short+err", K: r.Intn(12)}
				default:
					o.Fault = &FaultPlan{Kind: "full+err", J: 0}
				}
				if r.Chance(1, 4) {
					o.Kind = "ParseRender"
				}
			}
			ops = append(ops, o)
		}
	}
	for d := 0; d < nMain; d++ {
		use(d)
	}
	spec.Clients = [][]Op{ops}
	spec.Note = "gap run"
	if storm {
		spec.Note = "gap run, storm of failing calls"
	}
}

// hugeTableRuns: once per batch, documents whose used-id table grows past 2^16 and 2^17
// entries (that many DISTINCT headings), followed by repeated texts and a literal suffix: a
// table that stops recording, switches representation or overflows a counter at such a size
// hands out an id twice. Judged like every other conversion (reference equality, and the
// per-document clauses on the output).
func hugeTableRuns(p *histParams, st *Stats) {
	for k, n := range []int{1<<16 + 5, 1<<17 + 5} {
		var b strings.Builder
		for i := 0; i < n; i++ {
			fmt.Fprintf(&b, "## i%d\n", i)
		}
		b.WriteString("# Notes\n\nNotes\n===\n\n> - ## Notes\n\n# notes-1\n\n# Notes\n\n## i7\n")
		spec := &RunSpec{Property: p.prop, Engine: "hist", VerifSeed: p.verifSeed, Run: -1 - k, RunSeed: "huge-table",
			Cfg: Config{AutoID: true}, Docs: [][]byte{[]byte(b.String())}, Clients: [][]Op{{{Kind: "Convert", Doc: 0, Stack: "W1"}}}, Note: "huge used-id table"}
		v := executeSpec(spec, st)
		st.Inc("probe.c15_docs_with_more_than_65536_ids")
		if v != nil {
			st.Inc("violations_seen")
			if len(st.Violations) < p.maxVio {
				reportViolation(spec, v, st, p.replayDir, false) // a 1.5 MB document: every shrinking candidate costs seconds
			}
		}
		if hung {
			return
		}
	}
}

// genFault draws a fault plan; offsets up to maxK.
func genFault(r *Rng, maxK int) *FaultPlan {
	f := genFault0(r, maxK)
	if f.Kind != "short+nil" && r.Chance(1, 3) {
		f.Err = pick(r, errKinds[1:])
	}
	return f
}

func genFault0(r *Rng, maxK int) *FaultPlan {
	switch r.Intn(11) {
	case 10:
		return &FaultPlan{Kind: "flaky", J: r.Intn(1 << 20), K: pick(r, []int{3, 10, 30, 60})}
	case 0, 1, 2, 3:
		return &FaultPlan{Kind: "short+err", K: r.Intn(maxK)}
	case 4:
		return &FaultPlan{Kind: "zero+err", J: r.Intn(8)}
	case 5:
		return &FaultPlan{Kind: "full+err", J: r.Intn(8)}
	case 6:
		return &FaultPlan{Kind: "always"}
	case 7, 8:
		return &FaultPlan{Kind: "transient", J: r.Intn(8), Shape: pick(r, []string{"zero", "short", "full"})}
	}
	return &FaultPlan{Kind: "short+nil", J: r.Intn(8)}
}

func histWorker(p *histParams, st *Stats) {
	c := loadCorpus()
	start := p.shard
	if p.ctl != nil {
		start = p.ctl.from
	} else {
		curProc = &ProcHistory{Tier: p.tier, Shard: p.shard, Of: p.of, Runs: p.runs}
	}
	lastRun := -1
	if p.prop == "C15" && p.ctl == nil && p.shard == 0 {
		hugeTableRuns(p, st)
	}
	// Garbage collection is an event the simulator owns here (GC ops inside histories): the
	// automatic collector is switched off and a collection is forced at fixed run indexes, so
	// that what sync.Pool caches of the code under test hold at any operation is a function of
	// the run sequence alone and a replayed sequence sees the same. (A safety valve collects
	// when the heap exceeds 1.5 GB; it does not fire with the documents generated today.)
	defer debug.SetGCPercent(debug.SetGCPercent(-1))
	var ms runtime.MemStats
	for run := start; run < p.runs; run += p.of {
		if p.ctl != nil && run > p.ctl.until {
			break
		}
		if (run/p.of)%16 == 0 {
			runtime.GC()
		} else if (run/p.of)%4 == 0 {
			if runtime.ReadMemStats(&ms); ms.HeapAlloc > 1500<<20 {
				runtime.GC()
				st.Inc("diag.gc_safety_valve")
			}
		}
		spec := genHistSpec(p, c, run)
		if p.ctl == nil {
			switch {
			case strings.HasPrefix(spec.Note, "gap run, 2^15"):
				st.Inc("probe.gap_runs_of_2^15_or_2^16_calls")
			case strings.HasPrefix(spec.Note, "gap run, storm"):
				st.Inc("probe.gap_runs_storm_of_failing_calls")
			case strings.HasPrefix(spec.Note, "gap run"):
				st.Inc("probe.gap_runs")
			case spec.Note == "near-miss":
				st.Inc("probe.near_miss_runs")
			}
			if n := len(spec.Clients[0]); n > 255 {
				st.Inc("probe.histories_longer_than_255_ops")
			}
			if spec.Cfg.ErrRenderer {
				st.Inc("probe.cfg_error_returning_node_renderers")
			}
		}
		v := executeSpec(spec, st)
		if p.ctl != nil {
			if v != nil {
				p.ctl.capture(spec, v)
			}
			continue
		}
		st.Inc("evaluations")
		ops := spec.Clients[0]
		if len(ops) >= 2 {
			h := hashStr(spec.Cfg.Key())
			for _, o := range ops {
				h = hashU64(hashStr(o.String())^h, uint64(o.Doc))
				if o.Doc >= 0 && o.Doc < len(spec.Docs) {
					h = hashBytes(h, spec.Docs[o.Doc])
				}
			}
			st.Distinct(h)
		}
		st.Inc("cfg." + spec.Cfg.Key())
		if run < 2*p.of {
			var os []string
			for _, o := range ops {
				os = append(os, o.String())
			}
			if len(os) > 12 {
				os = append(os[:12], fmt.Sprintf("…(%d ops)", len(ops)))
			}
			var ds []string
			for _, d := range spec.Docs {
				ds = append(ds, clipStr(d, 60))
			}
			st.Sample(map[string]interface{}{"engine": "hist", "run": run, "run_seed": spec.RunSeed, "config": spec.Cfg.Key(), "ops": os, "docs": ds})
		}
		if v != nil {
			st.Inc("violations_seen")
			if len(st.Violations) < p.maxVio {
				reportViolation(spec, v, st, p.replayDir, !p.noMinimise)
			}
		}
		lastRun = run
		if stopAtFirst && len(st.Violations) > 0 {
			break
		}
		if hung {
			break // a goroutine of this process is stuck inside the code under test
		}
	}
	if p.ctl == nil && lastRun >= 0 && len(st.Violations) == 0 {
		nc, nd := 40, 16
		if p.tier == "thorough" {
			nc, nd = 160, 30
		}
		pristineSample(p, st, lastRun, nc, nd)
	}
}
