package main

import (
	"bytes"
	"fmt"
	"strings"
)

// Document generators. Everything is drawn from the *Rng passed in.

var words = []string{"alpha", "beta", "gamma", "delta", "foo", "bar", "baz", "qux", "Foo", "BAR", "x", "y1", "été", "日本", "a_b", "co-op"}

var headingTexts = []string{"a", "A", "a-1", "a_1", "a 1", "", "#", "!!!", "é", "日本", "heading", "heading-1", "1", "a-1-1",
	"*a*", "`a`", "a  b", "a-b", "A B", "id", "heading-2", "[a](/u)", "a\\*", "&amp;", "-", "_", "a-2", "1-1", "Heading", " a ", "a#", "release notes", "Release Notes", "getting started fast", "a b c",
	// texts that differ only in the case of non-ASCII letters
	"É", "Été", "été", "über uns", "Über uns", "ÜBER UNS", "Σ", "σ", "ς", "ВВЕДЕНИЕ", "Введение", "введение", "İ", "i̇", "ǅ", "ǆ", "日本 A", "日本 a",
	// an empty named anchor in front of the text (an id chosen by the author the old way), with
	// names that other headings of the pool slug to
	"<a name=\"a\"></a>x", "<a name='a-1'></a>y", "<a name=\"heading\"></a>", "<a id=\"a\"></a>z", "<a name=\"1\"></a>1", "<a name=\"x\"></a>a",
	// texts that slug to separators only, or to nothing but a separator after the fallback
	"- -", "--", "_ _", "\\_", "- _ -", "-a-", "--a", "a--"}

// entityNames: HTML5 entity names spread over the whole table (for every initial letter the
// first and the last name in sorted order where known, plus everyday ones).
var entityNames = strings.Fields(`AElig AMP Aacute Ascr Auml Backslash Bumpeq CapitalDifferentialD Cup DD Dcaron DownArrow ENG Euml Fcy Fscr GJcy Gt HARDcy Hscr IEcy Iuml Jcirc Jukcy KHcy Kscr LJcy Lt Map Mu NJcy Nu OElig Ouml PartialD Psi QUOT Qscr REG Rsh SHCHcy Sum THORN Tstrok Uacute Uuml VDash Vvdash Wcirc Wscr Xfr Xscr YAcy Yuml ZHcy Zscr
 aacute amp apos awint backcong bumpeq cacute cylcty dArr dzigrarr eDDot exponentiale fallingdotseq fscr gE gvnE hArr hyphen iacute iuml jcirc jukcy kappa kscr lAarr lvnE mDDot mumap nGg nwnear oS ovbar par puncsp qfr quot rAarr rx sacute szlig target twoheadrightarrow uArr uwangle vArr vzigzag wcirc wscr xcap xwedge yacute yuml zacute zcaron zcy zdot zeetrf zeta zfr zhcy zigrarr zopf zscr zwj zwnj
 nbsp copy lt gt hearts ngE NotEqualTilde nvlt bne`)

// tricky: strings on which un-escaping, entity resolution or URL escaping is NOT idempotent
// (doing it twice gives something else than doing it once), so a transformation applied
// once too often, or cached in the wrong form, becomes visible.
var tricky = []string{"&amp;amp;", "&amp;lt;b&amp;gt;", "&#38;#35;", "\\\\*", "\\&amp;", "%2520", "&amp;colon;", "a%20b%25", "\\\\\\[", "&#x26;quot;", "x&amp;amp;y=1", "\\%41"}

// attribute names: html.GlobalAttributeFilter's, some of the per-element extras, and names no
// filter lets through
var attrNames = strings.Split("accesskey,autocapitalize,autofocus,class,contenteditable,dir,draggable,enterkeyhint,hidden,id,inert,inputmode,is,itemid,itemprop,itemref,itemscope,itemtype,lang,part,role,slot,spellcheck,style,tabindex,title,translate,title,lang,hidden,itemref,inert,slot,autofocus,draggable,align,width,cite,data-x,onclick,aria-label", ",")

// randCase: s with every letter's case chosen by the generator. Wherever goldmark matches
// names case-insensitively (HTML tag names, URL schemes, www., attribute names) each spelling
// is a value of its own for anything that caches, interns or learns spellings.
func randCase(r *Rng, s string) string {
	b := []byte(s)
	mode := r.Intn(4) // 0 as is, 1 upper, 2 capitalised, 3 per letter
	for i, c := range b {
		up := false
		switch mode {
		case 1:
			up = true
		case 2:
			up = i == 0
		case 3:
			up = r.Chance(1, 2)
		}
		if up && c >= 'a' && c <= 'z' {
			b[i] = c - 32
		}
	}
	return string(b)
}

var blockTags = strings.Split("address,article,aside,base,blockquote,body,caption,center,col,colgroup,dd,details,dialog,dir,div,dl,dt,fieldset,figcaption,figure,footer,form,frame,frameset,h1,h2,h6,head,header,hr,html,iframe,legend,li,link,main,menu,menuitem,nav,noframes,ol,optgroup,option,p,param,section,summary,table,tbody,td,tfoot,th,thead,title,tr,track,ul,pre,script,style,textarea,span,custom-tag", ",")

func word(r *Rng) string {
	if r.Chance(1, 12) {
		return pick(r, tricky)
	}
	return pick(r, words)
}

// genTitle: link titles, a share of them with characters the renderer has to escape.
func genTitle(r *Rng) string {
	return pick(r, []string{`"title"`, `"t & u"`, `'a <b> c'`, `"q \"x\" &amp; &copy;"`, `(paren "q")`, `"été > 1"`, `"&quot;"`, `'it''s'`})
}

func sentence(r *Rng, n int) string {
	var b strings.Builder
	for i := 0; i < n; i++ {
		if i > 0 {
			b.WriteByte(' ')
		}
		b.WriteString(word(r))
	}
	return b.String()
}

// families of constructs; each generator returns a complete small document.
// uniq: a token that no other document of the process contains (with overwhelming
// probability): streams of documents with many of them take bounded caches, memo tables and
// interning maps of the code under test past their capacity, where they evict, reset or grow.
func uniq(r *Rng) string {
	const al = "abcdefghijklmnopqrstuvwxyz0123456789"
	n := r.Range(5, 8)
	b := make([]byte, n)
	for i := range b {
		b[i] = al[r.Intn(len(al))]
	}
	if b[0] >= '0' && b[0] <= '9' {
		b[0] = 'q'
	}
	return string(b)
}

var families = []string{"twins", "manyuniq", "refdef", "refuse", "footnote", "footuse", "heading", "typo", "table", "openend", "fence", "attr",
	"deflist", "tasklist", "linkify", "strike", "cjk", "entity", "emph", "html", "list", "quote", "link", "para", "unilabel"}

func genFamily(r *Rng, fam string) []byte {
	var b strings.Builder
	label := pick(r, []string{"foo", "bar", "Foo", "a b", "1", "^x"})
	if r.Chance(1, 2) {
		// short random labels: a small space, so that across the documents of one process
		// equal labels, labels differing only in case, and labels colliding under simple hash
		// functions (two letters: 33*c1+c2) all occur
		const letters = "abcdyzABCDYZ019"
		n := r.Range(2, 3)
		lb := make([]byte, n)
		for i := range lb {
			lb[i] = letters[r.Intn(len(letters))]
		}
		label = string(lb)
	}
	use := label // the using side sometimes spells the label in another case
	if r.Chance(1, 3) {
		use = strings.ToLower(label)
	} else if r.Chance(1, 4) {
		use = strings.ToUpper(label)
	}
	switch fam {
	case "twins":
		// Characters that collide when a code point is truncated (to 7, 8 or 16 bits) or looked
		// up in a small direct-mapped table: a base character or one of its "twins" (base + 128,
		// + 256, + 0x10000, + 0x20000), of a different class than the base where possible, placed
		// where goldmark classifies characters: next to emphasis delimiters, in link labels and
		// headings, around soft line breaks. A table indexed by a masked code point confuses the
		// twin with the base once the base has been seen in the process.
		bases := []rune{'.', ',', '!', '-', '1', 'a', 'Z', ' ', '、', '。', '「', '—', '·', '日', 'é', '㈱', '\u200b'}
		c := pick(r, bases)
		ch := c
		if k := r.Intn(5); k > 0 {
			ch = c + []rune{0, 128, 256, 0x10000, 0x20000}[k]
		}
		if ch >= 0xd800 && ch <= 0xdfff {
			ch = c
		}
		x := string(ch)
		switch r.Intn(5) {
		case 0:
			fmt.Fprintf(&b, "%s*%s%s* **%s**%s _%s_%s\n", word(r), x, word(r), word(r), x, x, word(r))
		case 1:
			fmt.Fprintf(&b, "漢*%s字* x**%s**y %s~~%s~~\n", x, x, x, word(r))
		case 2:
			fmt.Fprintf(&b, "[%sa]: /u\n\n[%sA] [%sa][]\n", x, x, x)
		case 3:
			fmt.Fprintf(&b, "# %s %s\n\n## %s%s\n", x, word(r), word(r), x)
		default:
			fmt.Fprintf(&b, "a%s\n%sb\n%s\n%s\n\"%s\" '%s'\n", x, x, x, x, x, x)
		}
	case "manyuniq": // 30-80 fresh tokens of one kind in one document
		k := r.Range(30, 80)
		toks := make([]string, k)
		for i := range toks {
			toks[i] = uniq(r)
		}
		switch r.Intn(6) {
		case 0: // reference labels: definitions and uses
			for _, t := range toks {
				fmt.Fprintf(&b, "[%s]: /u/%s\n", t, t)
			}
			b.WriteString("\n")
			for _, t := range toks {
				fmt.Fprintf(&b, "[%s] ", strings.ToUpper(t))
			}
			b.WriteString("\n")
		case 1: // undefined labels only
			for _, t := range toks {
				fmt.Fprintf(&b, "[%s] [x][%s]\n", t, t)
			}
		case 2: // headings
			for _, t := range toks {
				fmt.Fprintf(&b, "## %s %s\n", t, pick(r, []string{"", "x", t}))
			}
		case 3: // footnotes
			for _, t := range toks {
				fmt.Fprintf(&b, "w[^%s] ", t)
			}
			b.WriteString("\n\n")
			for _, t := range toks {
				fmt.Fprintf(&b, "[^%s]: %s\n", t, t)
			}
		case 4: // destinations, titles, autolinks
			for _, t := range toks {
				fmt.Fprintf(&b, "[a](/%s?q=%s \"%s\") <http://%s.example/> www.%s.com &%s;\n", t, t, t, t, t, t)
				if r.Split("uniq-scheme-"+t).Chance(1, 4) {
					fmt.Fprintf(&b, "[b](%s%s)\n", pick(r.Split("uniq-scheme2-"+t), []string{"javascript:", "JavaScript:", "data:", "vbscript:", "file:"}), t)
				}
			}
		default: // words with inline markup, attributes
			for _, t := range toks {
				fmt.Fprintf(&b, "*%s* `%s` ~~%s~~ \"%s\"\n", t, t, t, t)
			}
			fmt.Fprintf(&b, "\n# h {#%s .%s title=%s}\n", toks[0], toks[1], toks[2])
		}
	case "refdef": // definer of link references
		fmt.Fprintf(&b, "[%s]: /url-%d?a=1&b=%%20 %s\n\n[%s] and [%s][] and ![%s]\n", label, r.Intn(9), genTitle(r), use, label, use)
		if r.Chance(1, 2) {
			fmt.Fprintf(&b, "\n[t%d]: /%s '%s'\n\n[t%d] ![t%d]\n", r.Intn(3), pick(r, tricky), pick(r, tricky), r.Intn(3), r.Intn(3))
		}
	case "refuse": // user of (undefined here) link references
		fmt.Fprintf(&b, "[%s] and [%s][] and ![%s] and [text][%s]\n", use, label, use, label)
	case "footnote":
		if r.Chance(1, 6) {
			// ten or more footnotes, one of them referenced ten or more times: indexes and
			// reference counts with two digits
			k := r.Range(10, 13)
			if r.Split("many-footnotes").Chance(1, 3) {
				k = pick(r.Split("many-footnotes-k"), []int{31, 32, 33, 34, 40, 64, 65, 70, 100, 101, 130}) // past 32, 64, 100, 128
			}
			many := r.Intn(k)
			for i := 0; i < k; i++ {
				fmt.Fprintf(&b, "%s[^n%d] ", word(r), i)
			}
			for i := r.Range(9, 12); i > 0; i-- {
				fmt.Fprintf(&b, "again[^n%d] ", many)
			}
			b.WriteString("\n\n")
			for i := 0; i < k; i++ {
				fmt.Fprintf(&b, "[^n%d]: %s\n", i, word(r))
			}
			break
		}
		n := pick(r, []string{"1", "note", "a"})
		fmt.Fprintf(&b, "%s[^%s] and again[^%s]\n\n[^%s]: %s\n", sentence(r, 2), n, n, n, sentence(r, 3))
		if r.Chance(1, 3) {
			fmt.Fprintf(&b, "\n    indented continuation\n\n[^unused]: %s\n", word(r))
		}
	case "footuse":
		n := pick(r, []string{"1", "note", "a"})
		fmt.Fprintf(&b, "%s[^%s] undefined here\n", sentence(r, 2), n)
		if r.Chance(1, 2) {
			fmt.Fprintf(&b, "\n[^other]: defined %s[^other]\n\nuse[^other]\n", word(r))
		}
	case "heading":
		k := r.Range(1, 4)
		for i := 0; i < k; i++ {
			t := pick(r, headingTexts)
			if r.Chance(1, 3) && strings.TrimSpace(t) != "" && !strings.HasPrefix(t, "#") && t != "-" && t != "_" {
				fmt.Fprintf(&b, "%s\n%s\n\n", t, pick(r, []string{"===", "---", "="}))
			} else {
				fmt.Fprintf(&b, "%s %s\n\n", strings.Repeat("#", r.Range(1, 6)), t)
			}
		}
	case "typo":
		opts := []string{"\"...%s...\" --\"'x'\"--- '...' ...\"\n", "\"'%s'\" ---... <<\"x\">> --...\n", "\"unbalanced %s\n", "closing\" and 'x' %s\n", "'tis %s's -- and --- ... <<x>>\n", "\"a 'b' c\" %s\n", "%s' \"\n", "'' `` \" ' %s\n"}
		fmt.Fprintf(&b, pick(r, opts), word(r))
	case "table":
		al := []string{":--", ":-:", "--:", "---"}
		cols := r.Range(1, 4)
		row := func(f func(int) string) {
			b.WriteString("|")
			for i := 0; i < cols; i++ {
				b.WriteString(" " + f(i) + " |")
			}
			b.WriteString("\n")
		}
		row(func(int) string { return word(r) })
		row(func(int) string { return pick(r, al) })
		for i := r.Range(0, 3); i > 0; i-- {
			row(func(int) string {
				return pick(r, []string{word(r), "`a\\|b`", "\\|", "*e*", "", "[l](/u)"})
			})
		}
	case "openend": // ends inside an open construct
		opts := []string{"```go\ncode %s", "~~~\n%s\n", "- item %s\n\n", "1. %s\n   - nested\n\n", "[unclosed %s", "*unclosed %s", "- Foo %s\n--", "> quote %s\n> ", "<div>\nhtml %s", "<!-- comment %s", "`code %s", "\"%s", "[a]: <%s", "para %s\n===", "    indented %s\n\n", "| a |\n|-|\n| %s", "term %s\n: ", "<?php %s", "<![CDATA[ %s", "\\", "![img %s]("}
		fmt.Fprintf(&b, pick(r, opts), word(r))
	case "fence":
		ch := pick(r, []string{"`", "~"})
		n := r.Range(3, 6)
		ind := strings.Repeat(" ", r.Intn(4))
		info := pick(r, []string{"", "go", "python startline=3", "  rust  ", "{.cls}"})
		if ch == "`" && strings.Contains(info, "`") {
			info = ""
		}
		fmt.Fprintf(&b, "%s%s%s\n", ind, strings.Repeat(ch, n), info)
		for i := r.Range(0, 3); i > 0; i-- {
			fmt.Fprintf(&b, "%s%s %s\n", strings.Repeat(" ", r.Intn(5)), word(r), pick(r, []string{"", "```", "~~~", "<b>"}))
		}
		if r.Chance(3, 4) {
			fmt.Fprintf(&b, "%s%s\n", ind, strings.Repeat(ch, n+r.Intn(2)))
		}
		fmt.Fprintf(&b, "after %s\n", word(r))
	case "attr":
		if r.Chance(1, 3) {
			fmt.Fprintf(&b, "# %s {#id-%s .c%d data-x=\"%s\"}\n\n%s\n=== {#x}\n", word(r), word(r), r.Intn(3), word(r), word(r))
			break
		}
		// several attributes per heading, drawn from every name the renderer's attribute filters
		// know (names sharing a hash slot of a filter included) and some it must drop
		for i := r.Range(1, 3); i > 0; i-- {
			var as []string
			for j := r.Range(1, 5); j > 0; j-- {
				n := pick(r, attrNames)
				if r.Chance(1, 5) {
					n = randCase(r, n)
				}
				switch r.Intn(4) {
				case 0:
					as = append(as, fmt.Sprintf("%s=%s", n, pick(r, words[:11])))
				case 1:
					if r.Split("attr-escapes").Chance(1, 2) {
						// quoted values with backslash escapes (the value has to be unescaped somewhere)
						as = append(as, fmt.Sprintf("%s=\"say \\\"%s\\\" %s\\\\ twice\"", n, word(r), word(r)))
						break
					}
					as = append(as, fmt.Sprintf("%s=\"%s &amp; <%d>\"", n, word(r), r.Intn(9)))
				case 2:
					as = append(as, pick(r, []string{"#i" + pick(r, words[:8]), ".k" + pick(r, words[:8])}))
				default:
					as = append(as, fmt.Sprintf("%s='%s'", n, pick(r, words[:11])))
				}
			}
			if r.Chance(1, 4) {
				fmt.Fprintf(&b, "%s\n%s {%s}\n\n", word(r), pick(r, []string{"===", "---"}), strings.Join(as, " "))
			} else {
				fmt.Fprintf(&b, "%s %s {%s}\n\n", strings.Repeat("#", r.Range(1, 6)), word(r), strings.Join(as, " "))
			}
		}
	case "deflist":
		fmt.Fprintf(&b, "%s\n: %s\n: %s\n\n%s\n\n: loose %s\n", word(r), sentence(r, 2), word(r), word(r), word(r))
	case "tasklist":
		fmt.Fprintf(&b, "- [x] %s\n- [ ] %s\n- [X]%s\n", word(r), word(r), word(r))
	case "linkify":
		fmt.Fprintf(&b, "%s%s.com and %s//%s.org/p?q=1&r=2 and %s@%s.com. <%s//%s.example/> ftp://%s.net\n", randCase(r, "www."), pick(r, words[:8]), randCase(r, pick(r, []string{"http:", "https:", "ftp:", "custom:"})), pick(r, words[:8]), pick(r, words[:8]), randCase(r, "example"), randCase(r, pick(r, []string{"http:", "https:", "mailto:", "irc:"})), pick(r, words[:8]), pick(r, words[:8]))
	case "strike":
		fmt.Fprintf(&b, "~~%s~~ and ~%s~ and ~~~%s~~~\n", word(r), word(r), word(r))
	case "cjk":
		fmt.Fprintf(&b, "日本語の\n文章 %s\nです。\\ x\nａ\nb\n", word(r))
	case "entity":
		if re := r.Split("entity-spread"); re.Chance(1, 2) {
			// named entities from all over the table: first and last names of every initial
			// letter, long and short names, names that are prefixes of others, in text, in a
			// title, in a destination, in a code fence info string
			for i := re.Range(2, 24); i > 0; i-- {
				fmt.Fprintf(&b, "&%s; ", pick(re, entityNames))
			}
			fmt.Fprintf(&b, "[a](/u?x=&%s; \"&%s;\")\n\n```x&%s;y\nz\n```\n", pick(re, entityNames), pick(re, entityNames), pick(re, entityNames))
			break
		}
		fmt.Fprintf(&b, "&amp; &copy; &#35; &#x22; &nosuch; &%s; &AElig &lt;%s&gt; [a](/u?a=1&amp;b \"&quot;\")\n", pick(r, []string{"nbsp", "Dcaron", "hearts", "ngE", "zwnj"}), word(r))
	case "unilabel": // reference labels that need Unicode case folding and whitespace collapsing to match
		pairs := [][2]string{{"ＡＢＣ ẞ", "ａｂｃ SS"}, {"ÄÖÜ", "äöü"}, {"ΑΓΩ", "αγω"}, {"Straße", "STRASSE"}, {"İstanbul", "i̇stanbul"}, {"ǅ x", "ǆ  X"}, {"Толпой", "ТОЛПОЙ"}, {"ﬁn", "FIN"}}
		pr := pick(r, pairs)
		fmt.Fprintf(&b, "[%s]: /dest-%d \"%s\"\n\n[%s] and [text][%s] and [%s][]\n", pr[0], r.Intn(9), word(r), pr[1], pr[1], pr[0])
	case "emph":
		opts := []string{"*%s* **%s** ***x*** _a_ __b__\n", "*%s **%s* x**\n", "**%s*%s\n", "_%s_%s_ *a*b*\n", "***%s** %s*\n"}
		fmt.Fprintf(&b, pick(r, opts), word(r), word(r))
	case "html":
		if rm := r.Split("multi-line-tags"); rm.Chance(1, 4) {
			// inline tags, comments, processing instructions and CDATA that continue on the next line
			fmt.Fprintf(&b, "%s <a\nhref=\"/%s\"\ntitle='%s'>x</a> <!-- c\n%s --> <?p\n%s?> <![CDATA[\n%s]]> </span\n>\n", word(rm), word(rm), word(rm), word(rm), word(rm), word(rm))
			break
		}
		if r.Chance(1, 2) {
			// HTML blocks and inline tags with tag names in every spelling: a complete tag alone on
			// its line, a tag followed by text, closing tags, tags with attributes
			for i := r.Range(1, 4); i > 0; i-- {
				t := randCase(r, pick(r, blockTags))
				switch r.Intn(6) {
				case 0:
					fmt.Fprintf(&b, "<%s>\n%s\n</%s>\n\n", t, word(r), t)
				case 1:
					fmt.Fprintf(&b, "<%s>%s\n\n", t, word(r))
				case 2:
					fmt.Fprintf(&b, "</%s>\n*%s*\n\n", t, word(r))
				case 3:
					fmt.Fprintf(&b, "<%s class=\"%s\" %s>\n\n%s\n\n", t, word(r), randCase(r, "hidden"), word(r))
				case 4:
					fmt.Fprintf(&b, "%s <%s>%s</%s> <%s/>\n\n", word(r), t, word(r), randCase(r, t), t)
				default:
					fmt.Fprintf(&b, "  <%s\n  id=\"%s\">\n%s\n\n", t, word(r), word(r))
				}
			}
			break
		}
		opts := []string{"<div class=\"%s\">\n*x*\n</div>\n\npara <span>%s</span> <!-- c -->\n", "<script>\n%s\n</script>\nafter %s\n", "a <b>%s</b> <a href=\"%s\">\n"}
		fmt.Fprintf(&b, pick(r, opts), word(r), word(r))
	case "list":
		m := pick(r, []string{"-", "*", "+", "1.", "2)", "10."})
		if rl := r.Split("list-shapes"); rl.Chance(2, 3) {
			// lists whose outcome depends on what the list parsers remember from line to line:
			// empty items, blank lines after them, items whose content starts on the next line,
			// second paragraphs, continuation lines at several indents, nested lists, marker changes
			ind := strings.Repeat(" ", len(m)+1)
			for i := rl.Range(2, 6); i > 0; i-- {
				switch rl.Intn(9) {
				case 0:
					fmt.Fprintf(&b, "%s\n", m) // empty item
				case 1:
					fmt.Fprintf(&b, "%s\n\n", m) // empty item followed by a blank line
				case 2:
					fmt.Fprintf(&b, "%s\n%s%s\n", m, ind, word(rl)) // content starts on the next line
				case 3:
					fmt.Fprintf(&b, "%s %s\n\n%s%s\n", m, word(rl), ind, word(rl)) // second paragraph
				case 4:
					fmt.Fprintf(&b, "%s %s\n%s%s sub\n", m, word(rl), ind, pick(rl, []string{"-", "*", "1."}))
				case 5:
					fmt.Fprintf(&b, "%s %s\n\n", m, word(rl)) // loose
				case 6:
					fmt.Fprintf(&b, "%s %s\n%s%s\n", m, word(rl), strings.Repeat(" ", rl.Intn(7)), word(rl)) // continuation / lazy line
				case 7:
					m = pick(rl, []string{"-", "*", "+", "1.", "2)", "10."}) // marker change: a new list
					ind = strings.Repeat(" ", len(m)+1)
					fmt.Fprintf(&b, "%s %s\n", m, word(rl))
				default:
					fmt.Fprintf(&b, "%s %s\n", m, word(rl))
				}
			}
			if rl.Chance(1, 2) {
				fmt.Fprintf(&b, "\n%s%s\n", strings.Repeat(" ", rl.Intn(6)), word(rl))
			}
			break
		}
		fmt.Fprintf(&b, "%s %s\n%s %s\n\n%s   %s\n%s %s\n  - sub\n", m, word(r), m, word(r), strings.Repeat(" ", len(m)), word(r), m, word(r))
	case "quote":
		fmt.Fprintf(&b, "> %s\n> > %s\nlazy %s\n\n> - %s\n", word(r), word(r), word(r), word(r))
	case "link":
		if rm := r.Split("emails"); rm.Chance(1, 6) {
			// e-mail autolinks at the limits of the address grammar: domain labels of 62..65
			// characters, many labels, hyphens at label ends
			for i := rm.Range(1, 4); i > 0; i-- {
				l := strings.Repeat(pick(rm, []string{"a", "x1", "b-c"}), 80)[:pick(rm, []int{1, 2, 61, 62, 63, 64, 65, 80})]
				fmt.Fprintf(&b, "<%s@%s.%s> %s@%s.example.com\n", word(rm), l, pick(rm, []string{"com", l, "a-"}), word(rm), l)
			}
			break
		}
		if rs := r.Split("schemes"); rs.Chance(1, 2) {
			// destinations of both verdicts of the URL filter next to each other: script-capable
			// schemes (any case, with unique tails sometimes), harmless look-alikes, the data:
			// image exceptions, the same few destinations again and again across documents
			for i := rs.Range(2, 8); i > 0; i-- {
				var d string
				switch rs.Intn(4) {
				case 0:
					d = randCase(rs, pick(rs, []string{"javascript:", "vbscript:", "file:", "data:"})) + pick(rs, []string{"alert(1)", "x", "text/html,hi", "//a/b", uniq(rs)})
				case 1:
					d = pick(rs, []string{"data:image/png;base64,AAAA", "data:image/gif;x", "data:image/svg+xml,<x>", "javascript", "java-script:x", "/javascript:x", "files:x", "datas:x", "vbscripts:x"})
				case 2:
					d = pick(rs, []string{"/url", "/u", "#frag", "http://example.com/", "mailto:a@b.c", "/"})
				default:
					d = "/" + uniq(rs)
				}
				if rs.Chance(1, 3) {
					fmt.Fprintf(&b, "![%s](%s) ", word(rs), d)
				} else if rs.Chance(1, 4) {
					fmt.Fprintf(&b, "<%s> ", d)
				} else {
					fmt.Fprintf(&b, "[%s](%s) ", word(rs), d)
				}
			}
			b.WriteString("\n")
			break
		}
		fmt.Fprintf(&b, "[%s](/u/%s %s) ![i](/p.png?%s %s) <http://%s.com> [a [b] c](</u v>) [t](<%s>)\n", word(r), pick(r, tricky), genTitle(r), pick(r, tricky), genTitle(r), word(r), pick(r, tricky))
	default:
		fmt.Fprintf(&b, "%s\n%s\n", sentence(r, r.Range(1, 6)), sentence(r, 2))
	}
	return []byte(b.String())
}

// genLong: ONE block group that is much longer than usual (many lines with no top-level
// blank line between them), so that scratch slices, pooled buffers and line tables inside
// the parser grow past their initial capacities (64, 128, 256, 1024...). Followed in leak
// pairs by a small document of the same construct.
func genLong(r *Rng) []byte {
	n := pick(r, []int{40, 70, 130, 140, 260, 520, 1100})
	var b strings.Builder
	switch r.Intn(14) {
	case 9: // deeply nested block quotes
		d := pick(r, []int{17, 33, 65, 130, 260})
		fmt.Fprintf(&b, "%s%s\n", strings.Repeat("> ", d), word(r))
		if r.Chance(1, 2) {
			fmt.Fprintf(&b, "%s# %s\n", strings.Repeat(">", d/2), word(r))
		}
	case 10: // deeply nested inline constructs
		d := pick(r, []int{9, 17, 33, 65, 129})
		switch r.Intn(4) {
		case 0:
			fmt.Fprintf(&b, "%s%s%s\n", strings.Repeat("*a ", d), word(r), strings.Repeat(" a*", d))
		case 1:
			fmt.Fprintf(&b, "%s%s%s\n", strings.Repeat("[", d), word(r), strings.Repeat("](/u)", d))
		case 2:
			fmt.Fprintf(&b, "%s%s%s\n", strings.Repeat("![", d), word(r), strings.Repeat("](/i.png)", d))
		default:
			fmt.Fprintf(&b, "%s %s %s\n", strings.Repeat("`", d), word(r), strings.Repeat("`", d))
		}
	case 11: // many cells in one table row, many columns
		if rw := r.Split("short-rows"); rw.Chance(1, 2) {
			// a wide header and many rows that are shorter than the header (the missing cells are
			// supplied by the parser: tens of thousands per document)
			c := pick(rw, []int{65, 129, 300})
			fmt.Fprintf(&b, "|%s\n|%s\n", strings.Repeat(" h |", c), strings.Repeat("-|", c))
			for i := 0; i < n && i < 300; i++ {
				fmt.Fprintf(&b, "| %s |\n", word(rw))
			}
			break
		}
		c := pick(r, []int{17, 33, 65, 129})
		fmt.Fprintf(&b, "|%s\n|%s\n|%s\n", strings.Repeat(" h |", c), strings.Repeat(pick(r, []string{":-|", "-:|", ":-:|"}), c), strings.Repeat(" `x\\|y` |", c))
	case 12: // many items of every extension in one block group: tasks, definitions, footnote references
		for i := 0; i < n && i < 300; i++ {
			switch i % 3 {
			case 0:
				fmt.Fprintf(&b, "- [%s] %s[^f%d]\n", pick(r, []string{" ", "x"}), word(r), i%7)
			case 1:
				fmt.Fprintf(&b, "- ~~%s~~ \"%s\" www.%s.com\n", word(r), word(r), pick(r, words[:8]))
			default:
				fmt.Fprintf(&b, "- **%s** `%s` <http://%s.example/>\n", word(r), word(r), pick(r, words[:8]))
			}
		}
		b.WriteString("\n")
		for i := 0; i < 7; i++ {
			fmt.Fprintf(&b, "[^f%d]: note %d\n", i, i)
		}
	case 13: // ordered list with large numbers and a long run of items
		start := pick(r, []int{0, 9, 99, 999, 99999999, 123456789})
		for i := 0; i < n && i < 200; i++ {
			fmt.Fprintf(&b, "%d. %s\n", start+i, word(r))
		}
	case 0: // list item with a blank second line and many continuation lines
		b.WriteString("- a\n\n  b\n")
		for i := 0; i < n; i++ {
			fmt.Fprintf(&b, "  %s\n", word(r))
		}
	case 1: // one long tight list
		for i := 0; i < n; i++ {
			fmt.Fprintf(&b, "- %s\n", word(r))
		}
	case 2: // deeply nested list
		for i := 0; i < n && i < 60; i++ {
			fmt.Fprintf(&b, "%s- %s\n", strings.Repeat("  ", i), word(r))
		}
	case 3: // one long paragraph with inline constructs on every line
		for i := 0; i < n; i++ {
			fmt.Fprintf(&b, "%s *%s* `%s` [%s](/u%d) \"%s\"\n", word(r), word(r), word(r), word(r), i, word(r))
		}
	case 4: // long block quote with lazy continuation
		for i := 0; i < n; i++ {
			if i%3 == 2 {
				fmt.Fprintf(&b, "%s\n", word(r))
			} else {
				fmt.Fprintf(&b, "> %s\n", word(r))
			}
		}
	case 5: // long fenced code block
		b.WriteString("```go\n")
		for i := 0; i < n; i++ {
			fmt.Fprintf(&b, "%s%s <&> \n", strings.Repeat(" ", i%5), word(r))
		}
		b.WriteString("```\n")
	case 6: // long table
		b.WriteString("| a | b |\n|:--|--:|\n")
		for i := 0; i < n; i++ {
			fmt.Fprintf(&b, "| %s | `x\\|y` %d |\n", word(r), i)
		}
	case 7: // many link reference definitions and uses in one paragraph group
		for i := 0; i < n; i++ {
			fmt.Fprintf(&b, "[r%d]: /u%d\n", i, i)
		}
		b.WriteString("\n")
		for i := 0; i < n; i++ {
			fmt.Fprintf(&b, "[r%d] ", i)
		}
		b.WriteString("\n")
	default: // many footnotes / headings without blank lines
		for i := 0; i < n; i++ {
			fmt.Fprintf(&b, "# %s\n", pick(r, headingTexts))
		}
	}
	return []byte(b.String())
}

// genLongLine: a document with ONE very long line (a chunk of 4 KB to 20 KB that a node
// renderer hands to the writer in a single call: code line, raw HTML line, run of plain text,
// heading, table cell), at the end, in the middle or at the start of the document. Chunks at
// and above the size of goldmark's internal buffer take bufio's direct-write path.
func genLongLine(r *Rng) []byte {
	n := pick(r, []int{4090, 4096, 4097, 4200, 5000, 8192, 8300, 12500, 20000})
	unit := pick(r, []string{"x", "ab", "word ", "é", "a_b-c.d,e ", "0123456789"})
	long := strings.Repeat(unit, n/len(unit)+1)[:n]
	for len(long) > 0 && long[len(long)-1]&0xc0 == 0x80 { // do not cut inside a rune
		long = long[:len(long)-1]
	}
	if unit == "é" && len(long)%2 == 1 {
		long = long[:len(long)-1]
	}
	var b strings.Builder
	pre := pick(r, []string{"", "", "intro *text*\n\n", "# h\n\n- a\n- b\n\n"})
	post := pick(r, []string{"", "", "\nafter\n", "\n---\n", "\n- x\n"})
	b.WriteString(pre)
	switch r.Intn(9) {
	case 0:
		fmt.Fprintf(&b, "```\n%s\n```\n", long)
	case 1:
		fmt.Fprintf(&b, "```\nshort\n%s", long) // unclosed fence, long last line without newline
	case 2:
		fmt.Fprintf(&b, "    %s\n", long)
	case 3:
		fmt.Fprintf(&b, "<div>\n%s\n</div>\n", long)
	case 4:
		fmt.Fprintf(&b, "<div>\n%s", long) // raw HTML block whose last line is the long one
	case 5:
		fmt.Fprintf(&b, "%s\n", long)
	case 6:
		fmt.Fprintf(&b, "# %s\n", long)
	case 7:
		fmt.Fprintf(&b, "| a | b |\n|:-|-:|\n| %s | c |\n", long)
	default:
		fmt.Fprintf(&b, "para `%s` and <span title=\"%s\">x</span>\n", long, long[:n/2])
	}
	b.WriteString(post)
	return []byte(b.String())
}

var longFollowers = []string{"- a\n  - b\n    - c\n", "- a\n- b\n\n- c\n", "1. a\n   b\n2. c\n", "> a\nb\n", "a\nb\n\nc\n", "| a |\n|-|\n| b |\n", "```\nx\n```\n", "[r1] [r2]\n", "# a\n# a\n", "- a\n\n  b\n- c\n", "* a\n  * b\n\n    c\n"}

// leak pairs: a definer followed by a user of the same kind of per-document state. If
// state survived a call the user's output changes.
var leakPairs = [][2]string{{"twins", "twins"}, {"refdef", "refuse"}, {"footnote", "footuse"}, {"footnote", "footnote"}, {"heading", "heading"},
	{"typo", "typo"}, {"table", "table"}, {"openend", "para"}, {"openend", "list"}, {"openend", "heading"}, {"openend", "fence"},
	{"openend", "typo"}, {"openend", "refuse"}, {"openend", "table"}, {"fence", "fence"}, {"attr", "heading"}, {"deflist", "para"},
	{"emph", "emph"}, {"list", "list"}, {"unilabel", "unilabel"}, {"unilabel", "refuse"}, {"html", "para"}, {"refdef", "link"}, {"entity", "entity"}, {"quote", "para"}}

func genLeakPair(r *Rng) ([]byte, []byte) {
	if r.Chance(1, 12) {
		return genLong(r), []byte(pick(r, longFollowers))
	}
	if r.Chance(1, 10) {
		a, b := genLeakPair0(r)
		return byteLevel(r, a), byteLevel(r, b)
	}
	return genLeakPair0(r)
}

func genLeakPair0(r *Rng) ([]byte, []byte) {
	return genLeakPairOf(r, pick(r, leakPairs))
}

func genLeakPairOf(r *Rng, p [2]string) ([]byte, []byte) {
	// Same sub-stream for both halves in half of the cases, so that both use the same
	// labels / heading texts / footnote names.
	sub := r.Next()
	a := genFamily(NewRng(sub), p[0])
	var b []byte
	if r.Chance(1, 2) {
		b = genFamily(NewRng(sub), p[1])
	} else {
		b = genFamily(r, p[1])
	}
	return a, b
}

// collision documents for C15
func genHeadingDoc(r *Rng) []byte {
	var b strings.Builder
	pool := headingTexts
	if r.Chance(1, 2) { // tight pool: many collisions
		k := r.Range(1, 3)
		pool = nil
		for i := 0; i < k; i++ {
			pool = append(pool, pick(r, headingTexts))
		}
	}
	n := r.Range(1, 8)
	if r.Chance(1, 10) {
		n = r.Range(20, 70) // many headings: id tables grow and rehash, suffixes reach two digits
		if rs := r.Split("two-digit-suffix"); rs.Chance(1, 2) {
			// one text many times, together with LITERAL headings that slug to its two-digit
			// suffixed ids (generated "t-10" meets written "t 10")
			t := pick(rs, []string{"a", "step", "heading", "x y", "日本 a"})
			pool = []string{t, t, t, t, t, t, t + " 10", t + "-11", t + " 1", t + "-12-1", t + " 9"}
		}
	}
	if rs := r.Split("many-same"); rs.Chance(1, 40) {
		// one text a hundred times and more (suffixes reach three digits, any bounded probing
		// runs out), together with LITERAL headings that slug to ids the probing will reach
		t := pick(rs, []string{"a", "step", "x y", "日本 a", "!!!", ""})
		n = rs.Range(95, 230)
		pool = []string{t}
		for i := rs.Range(8, 30); i > 0; i-- {
			pool = append(pool, t)
		}
		for i := rs.Range(1, 4); i > 0; i-- {
			base := t
			if strings.TrimSpace(t) == "" || t == "!!!" {
				base = "heading"
			}
			pool = append(pool, fmt.Sprintf("%s%s%d", base, pick(rs, []string{"-", " "}), rs.Range(90, n+4)))
		}
	}
	if r.Chance(1, 5) {
		// long heading texts (slugs of 64, 128, 256+ bytes) that are equal or differ only late
		base := sentence(r, pick(r, []int{10, 14, 24, 40, 70}))
		if r.Chance(1, 3) {
			base += " [link](http://example.com/a/rather/long/path/to/" + word(r) + ")"
		}
		pool = append([]string{}, pool...)
		pool = append(pool, base, base, base+" "+word(r), base+"-1", base[:len(base)-1])
		if r.Chance(1, 2) {
			pool = pool[len(pool)-5:]
		}
	}
	if r.Split("length-sweep").Chance(1, 6) {
		// slugs of every length from 1 to 40 bytes, each handed out several times (so that the
		// slug and its -1, -2 ... candidates of every length are probed in the used-id table)
		rs := r.Split("length-sweep-texts")
		const al = "abcdefghijklmnopqrstuvwxyzabcdefghijklmnopqrstuvwxyz"
		pool = nil
		for i := rs.Range(1, 3); i > 0; i-- {
			l := rs.Range(1, 40)
			o := rs.Intn(10)
			pool = append(pool, al[o:o+l])
		}
		if n < 3 {
			n = rs.Range(3, 6)
		}
	}
	fnRefs := r.Split("heading-fnref").Chance(1, 10) // some headings end in a footnote reference
	for i := 0; i < n; i++ {
		t := pick(r, pool)
		if fnRefs && strings.TrimSpace(t) != "" && r.Chance(1, 2) {
			t += "[^1]"
		}
		level := r.Range(1, 6)
		setextOK := strings.TrimSpace(t) != "" && !strings.HasPrefix(strings.TrimSpace(t), "#") && t != "-" && t != "_" && !strings.HasPrefix(t, " ")
		var h string
		if setextOK && r.Chance(1, 3) {
			if j := strings.Index(strings.TrimSpace(t), " "); j > 0 && r.Split("multi-line-setext").Chance(1, 2) && !strings.ContainsAny(t, "[`*") {
				// the same text over two lines: a multi-line Setext heading
				tt := strings.TrimSpace(t)
				t = tt[:j] + "\n" + strings.TrimLeft(tt[j+1:], " ")
				if strings.HasPrefix(t[j+1:], "#") || strings.HasPrefix(t[j+1:], "-") || strings.HasPrefix(t[j+1:], "=") || strings.HasPrefix(t[j+1:], ">") || t[j+1:] == "" {
					t = tt
				}
			}
			h = fmt.Sprintf("%s\n%s\n", t, pick(r, []string{"===", "---"}))
		} else {
			h = fmt.Sprintf("%s %s%s\n", strings.Repeat("#", level), t, pick(r, []string{"", "", " #", " ##  "}))
		}
		switch rr := r.Split("more-containers"); {
		case rr.Chance(1, 12):
			// a Setext heading whose paragraph starts with link reference definitions (they are
			// removed from the paragraph before it becomes the heading) - or consists of nothing else
			if setextOK && !strings.HasPrefix(h, "#") {
				h = "[r" + fmt.Sprint(rr.Intn(3)) + "]: /u" + pick(rr, []string{"", " 't'"}) + "\n" + h
			} else {
				h = "[r1]: /u\n[r2]: /v\n===\n\n" + h
			}
		case rr.Chance(1, 12):
			// three containers deep, with a lazy continuation line after it
			h = "[^g]: > 1. " + prefixLinesAfterFirst(h, "    >    ") + pick(rr, []string{"", "lazy\n"}) + "\nref[^g]\n"
		case rr.Chance(1, 16):
			h = "- > " + prefixLinesAfterFirst(h, "  > ") + "\n  > - " + prefixLinesAfterFirst(h, "  >   ")
		}
		switch r.Intn(8) {
		case 0:
			h = prefixLines(h, "> ")
		case 1:
			h = "- " + prefixLinesAfterFirst(h, "  ")
		case 2:
			h = "1. " + prefixLinesAfterFirst(h, "   ")
		case 3:
			h = "> - " + prefixLinesAfterFirst(h, ">   ")
		case 4:
			h = "[^f]: " + prefixLinesAfterFirst(h, "    ") + "\nref[^f]\n"
		case 5:
			h = "term\n: " + prefixLinesAfterFirst(h, "  ")
		}
		b.WriteString(h)
		b.WriteString(pick(r, []string{"\n", "\n", "text\n\n", ""}))
	}
	if fnRefs {
		b.WriteString("\n[^1]: note\n")
	}
	return []byte(b.String())
}

func prefixLines(s, p string) string {
	lines := strings.SplitAfter(s, "\n")
	var b strings.Builder
	for _, l := range lines {
		if l == "" {
			continue
		}
		b.WriteString(p + l)
	}
	return b.String()
}

func prefixLinesAfterFirst(s, p string) string {
	lines := strings.SplitAfter(s, "\n")
	var b strings.Builder
	for i, l := range lines {
		if l == "" {
			continue
		}
		if i > 0 {
			b.WriteString(p)
		}
		b.WriteString(l)
	}
	return b.String()
}

// mutate splices / deletes / duplicates lines of corpus documents.
func mutateDoc(r *Rng, c *Corpus, d []byte) []byte {
	lines := bytes.SplitAfter(d, []byte("\n"))
	switch r.Intn(5) {
	case 0: // drop a line
		if len(lines) > 1 {
			i := r.Intn(len(lines))
			lines = append(append([][]byte{}, lines[:i]...), lines[i+1:]...)
		}
	case 1: // duplicate a line
		i := r.Intn(len(lines))
		lines = append(append(append([][]byte{}, lines[:i+1]...), lines[i]), lines[i+1:]...)
	case 2: // splice another document's lines in
		o := bytes.SplitAfter(pick(r, c.Small), []byte("\n"))
		i := r.Intn(len(lines) + 1)
		lines = append(append(append([][]byte{}, lines[:i]...), o...), lines[i:]...)
	case 3: // cut the tail at a random byte (documents ending inside a construct)
		j := bytes.Join(lines, nil)
		if len(j) > 1 {
			return append([]byte{}, j[:r.Range(1, len(j)-1)]...)
		}
	case 4: // strip final newline
		j := bytes.Join(lines, nil)
		return bytes.TrimRight(j, "\n")
	}
	return bytes.Join(lines, nil)
}

func genCorpusDoc(r *Rng, c *Corpus) []byte {
	d := pick(r, c.All)
	if r.Chance(1, 3) {
		return mutateDoc(r, c, d)
	}
	return d
}

// genLarge concatenates until the source reaches about target bytes (output several times
// goldmark's 4096-byte internal buffer).
func genLarge(r *Rng, c *Corpus, target int) []byte {
	var b bytes.Buffer
	for b.Len() < target {
		switch r.Intn(3) {
		case 0:
			b.Write(genFamily(r, pick(r, families)))
		default:
			b.Write(pick(r, c.Small))
		}
		b.WriteString("\n\n")
	}
	return b.Bytes()
}

// genAnyDoc: general-purpose mix.
func genAnyDoc(r *Rng, c *Corpus) []byte {
	// (sub-streams keep older seeds' other choices; r itself must advance on every path,
	// otherwise a caller drawing several documents from one generator gets the same one again)
	gate := NewRng(r.Next())
	if gate.Split("long-line").Chance(1, 60) {
		return genLongLine(gate.Split("long-line-doc"))
	}
	if gate.Split("size-class").Chance(1, 70) {
		return genLong(gate.Split("size-class-doc"))
	}
	if gate.Split("struct").Chance(1, 5) {
		return byteLevel(gate, genStruct(gate.Split("struct-doc")))
	}
	switch r.Intn(10) {
	case 0, 1, 2, 3:
		return genCorpusDoc(r, c)
	case 4:
		return genHeadingDoc(r)
	default:
		return byteLevel(r, genFamily(r, pick(r, families)))
	}
}

// byteLevel: now and then the same document in an unusual byte-level dress — a UTF-8 byte
// order mark in front, CRLF line ends, no final newline, a NUL or an invalid UTF-8 byte
// inside, leading blank lines, trailing spaces/tabs.
func byteLevel(r *Rng, d []byte) []byte {
	if !r.Chance(1, 8) {
		return d
	}
	if rc := r.Split("lone-cr"); rc.Chance(1, 5) {
		// some or all line endings as a lone CR (a line ending of its own in CommonMark)
		out := append([]byte{}, d...)
		all := rc.Chance(1, 2)
		for i, c := range out {
			if c == '\n' && (all || rc.Chance(1, 3)) {
				out[i] = '\r'
			}
		}
		return out
	}
	switch r.Intn(8) {
	case 0:
		return append([]byte("\xef\xbb\xbf"), d...)
	case 1:
		return bytes.ReplaceAll(d, []byte("\n"), []byte("\r\n"))
	case 2:
		return bytes.TrimRight(d, "\n")
	case 3:
		if len(d) > 0 {
			i := r.Intn(len(d))
			return append(append(append([]byte{}, d[:i]...), 0), d[i:]...)
		}
	case 4:
		if len(d) > 0 {
			i := r.Intn(len(d))
			return append(append(append([]byte{}, d[:i]...), 0xc3), d[i:]...)
		}
	case 5:
		return append([]byte("\n\n \n"), d...)
	case 6:
		return bytes.ReplaceAll(d, []byte("\n"), []byte(" \t\n"))
	default:
		return append(append([]byte("\xef\xbb\xbf"), d...), "\n\xef\xbb\xbf# bom\n"...)
	}
	return d
}

// sameShape: a document with exactly the layout of d (same length, same offsets of every
// construct) whose letters and digits partly differ. It is what a cache keyed by a position in
// the caller's buffer, by a length, or by the first/last byte of a text confuses with d —
// most effectively when the caller reads both into the same reused buffer. interior: keep the
// first and last byte of every word.
func sameShape(r *Rng, d []byte, interior bool) []byte {
	out := append([]byte{}, d...)
	isAl := func(c byte) bool { return c >= 'a' && c <= 'z' || c >= 'A' && c <= 'Z' || c >= '0' && c <= '9' }
	rate := pick(r, []int{8, 25, 60})
	for i, c := range out {
		if !isAl(c) || r.Intn(100) >= rate {
			continue
		}
		if interior && (i == 0 || i == len(out)-1 || !isAl(d[i-1]) || !isAl(d[i+1])) {
			continue
		}
		switch {
		case c >= 'a' && c <= 'z':
			out[i] = byte('a' + r.Intn(26))
		case c >= 'A' && c <= 'Z':
			out[i] = byte('A' + r.Intn(26))
		default:
			out[i] = byte('0' + r.Intn(10))
		}
	}
	return out
}

// nearMiss: d with one piece of white space inserted or removed where it matters most: inside
// or next to a run of punctuation (a delimiter row, a fence, a thematic break, a Setext
// underline, an emphasis run, a list marker, a link reference colon). The result is usually a
// different construct, or none, that anything keyed by the text "without its white space"
// confuses with d.
func nearMiss(r *Rng, d []byte) []byte {
	if len(d) < 2 {
		return d
	}
	isP := func(c byte) bool { return strings.IndexByte("-=*_`~:|#>[]()+.!<", c) >= 0 }
	var cand []int // positions i: insert before d[i]
	var ws []int   // positions of a blank next to punctuation (to delete)
	for i := 1; i < len(d); i++ {
		if isP(d[i]) && isP(d[i-1]) {
			cand = append(cand, i)
		}
		if (d[i] == ' ' || d[i] == '\t') && (isP(d[i-1]) || i+1 < len(d) && isP(d[i+1])) {
			ws = append(ws, i)
		}
	}
	out := append([]byte{}, d...)
	for k := r.Range(1, 2); k > 0; k-- {
		switch {
		case len(cand) > 0 && r.Chance(3, 5):
			i := cand[r.Intn(len(cand))]
			if i > len(out) {
				continue
			}
			out = append(out[:i], append([]byte{pick(r, []byte{' ', ' ', '\t'})}, out[i:]...)...)
		case len(ws) > 0 && r.Chance(1, 2):
			i := ws[r.Intn(len(ws))]
			if i >= len(out) {
				continue
			}
			out = append(out[:i], out[i+1:]...)
		default:
			i := r.Intn(len(out))
			out = append(out[:i], append([]byte{' '}, out[i:]...)...)
		}
	}
	return out
}

// genComposite: one document made of k different construct families. Used where a single
// conversion should touch as many corners of the library as possible (a process's very first
// conversions: everything initialised lazily at package level is first used there).
func genComposite(r *Rng, k int) []byte {
	var b bytes.Buffer
	b.Write(genHeadingDoc(r))
	for i := 0; i < k; i++ {
		b.WriteString("\n")
		b.Write(genFamily(r, pick(r, families)))
	}
	return b.Bytes()
}

// herd: k documents of the same construct family with different parameters.
var herdFamilies = []string{"twins", "manyuniq", "footuse", "linkify", "strike", "tasklist", "cjk", "unilabel", "fence", "list", "link", "refdef", "emph", "table", "footnote", "heading", "typo", "openend", "entity", "quote", "deflist", "attr", "html"}

// biasConfig switches on what a construct family needs in order to mean anything (a herd of
// footnote documents on an instance without the Footnote extension explores nothing), and
// with it, half of the time, one of the extension's non-default options.
func biasConfig(r *Rng, c Config, fam string) Config {
	switch fam {
	case "footnote", "footuse":
		c.Footnote = true
		if r.Chance(3, 4) {
			c.FootnoteOpt = pick(r, []string{"prefix", "prefixfn", "prefixfn", "prefixfn", "titles", "titles", "both", "both"})
			if r.Chance(1, 3) {
				c.OptsVia = "renderer"
			}
		}
	case "table", "strike", "tasklist", "linkify":
		c.GFM = true
		if fam == "table" && r.Chance(1, 2) {
			c.TableAlign = pick(r, []string{"style", "attribute", "none"})
			if r.Chance(1, 3) {
				c.OptsVia = "renderer"
			}
		}
		if fam == "linkify" && r.Chance(1, 2) {
			c.LinkifyOpt = pick(r, []string{"protocols", "regexp"})
			if r.Chance(1, 3) {
				c.OptsVia = "renderer"
			}
		}
	case "typo":
		c.Typographer = true
		c.TypoSubs = r.Chance(1, 3)
		c.TypoAll = c.TypoSubs && r.Split("typo-all").Chance(1, 2)
		c.TypoShort = c.TypoSubs && r.Split("typo-short").Chance(1, 3)
	case "heading":
		c.AutoID = true
	case "attr":
		c.Attribute = true
	case "deflist":
		c.DefList = true
	case "cjk":
		if c.CJK == "" {
			c.CJK = pick(r, []string{"default", "css3", "escaped"})
		}
	}
	return c
}

// gate herd: k documents of one family, all generated behind the same gate of that family's
// generator (a sub-family that an ordinary document of the family reaches once in 2..6 draws),
// so that code only that sub-family reaches is entered by every worker of the run.
var familyGates = []struct{ fam, gate string }{{"link", "emails"}, {"link", "schemes"}, {"html", "multi-line-tags"}, {"entity", "entity-spread"}, {"attr", "attr-escapes"}, {"footnote", "many-footnotes"}, {"list", "list-shapes"}}

func genGateHerd(r *Rng, k int) ([][]byte, string) {
	g := pick(r, familyGates)
	forceGate = g.gate
	defer func() { forceGate = "" }()
	out := make([][]byte, k)
	for i := range out {
		out[i] = genFamily(r, g.fam)
	}
	return out, g.fam
}

func genHerd(r *Rng, c *Corpus, k int) ([][]byte, string) {
	fam := pick(r, herdFamilies)
	if r.Chance(1, 4) {
		// the families whose extension has options of its own: state that depends on an option
		// AND on the document is where cross-talk between workers has the most room
		fam = pick(r, []string{"footnote", "footuse", "footnote", "table", "linkify", "typo", "attr", "heading"})
	}
	out := make([][]byte, k)
	for i := range out {
		if pool := c.ByFamily[fam]; len(pool) > 0 && r.Chance(1, 3) {
			out[i] = pick(r, pool)
		} else if fam == "heading" && r.Chance(1, 2) {
			out[i] = genHeadingDoc(r)
		} else {
			out[i] = genFamily(r, fam)
		}
	}
	return out, fam
}
