package main

import (
	"bytes"
	"encoding/json"
	"fmt"
	"os"
	"path/filepath"
	"runtime"
	"runtime/debug"
	"time"
)

// executeSpec runs exactly what the spec says on the real code and applies the oracle of
// the spec's engine. It is a pure function of (spec, code): no PRNG draw that is not
// derived from fields of the spec, no clock.
func executeSpec(spec *RunSpec, st *Stats) *Violation {
	// Every source slice gets the same shape whatever produced it (generator, shrinker,
	// JSON decoder): its own backing array with spare capacity, as a buffer filled by
	// io.ReadAll or append has. A write past len(source) then hits caller-owned memory.
	for i, d := range spec.Docs {
		nd := make([]byte, len(d), len(d)+16)
		copy(nd, d)
		spec.Docs[i] = nd
	}
	if spec.GoMaxProcs > 0 && spec.GoMaxProcs != runtime.GOMAXPROCS(0) {
		runtime.GOMAXPROCS(spec.GoMaxProcs) // as in the process that found it
	}
	if spec.ProcHist != nil && spec.ProcHist.Needed {
		return executeHistory(spec, st)
	}
	switch spec.Engine {
	case "wfault":
		return execWfault(spec, st)
	case "hist":
		return execHistDeadline(spec, st)
	case "sched":
		return execSched(spec, st)
	}
	panic("unknown engine " + spec.Engine)
}

func loadSpec(path string) (*RunSpec, error) {
	b, err := os.ReadFile(path)
	if err != nil {
		return nil, err
	}
	var s RunSpec
	if err := json.Unmarshal(b, &s); err != nil {
		return nil, err
	}
	return &s, nil
}

func writeSpec(spec *RunSpec, dir string, v *Violation) (string, error) {
	s := *spec
	s.Class = v.Class
	s.Expect = v.expect()
	s.RaceReport = v.Race
	s.Tags = "verif"
	s.Go = runtime.Version()
	s.DocsText = nil
	for _, d := range s.Docs {
		s.DocsText = append(s.DocsText, string(d))
	}
	if err := os.MkdirAll(dir, 0o755); err != nil {
		return "", err
	}
	b, err := json.MarshalIndent(&s, "", " ")
	if err != nil {
		return "", err
	}
	name := fmt.Sprintf("%s-%s-s%d-r%d-%s-%s.json", s.Property, s.Engine, s.VerifSeed, s.Run, v.Class, sha(b)[:8])
	p := filepath.Join(dir, name)
	return p, os.WriteFile(p, b, 0o644)
}

// ---- minimiser --------------------------------------------------------------------------

type minimiser struct {
	class    string
	pred     func(*RunSpec) bool
	tried    int
	maxTried int
	deadline time.Time // wall clock bounds the *search* only; the result is replayed from the file
}

// spent: the budget is used up; callers stop building candidates (a clone of a history of
// tens of thousands of operations is megabytes).
func (m *minimiser) spent() bool {
	return m.tried >= m.maxTried || time.Now().After(m.deadline)
}

func (m *minimiser) ok(c *RunSpec) bool {
	if m.tried >= m.maxTried || time.Now().After(m.deadline) {
		return false
	}
	m.tried++
	return m.pred(c)
}

// minimise shrinks spec while the same violation class persists.
func minimise(spec *RunSpec, class string, pred func(*RunSpec) bool, maxTried int, maxWall time.Duration) *RunSpec {
	m := &minimiser{class: class, pred: pred, maxTried: maxTried, deadline: time.Now().Add(maxWall)}
	cur := spec.clone()
	from := &MinFrom{Clients: len(spec.Clients), Ops: spec.totalOps(), DocBytes: spec.docBytes(), Decisions: len(spec.Decisions), Switches: countSwitches(spec.Decisions)}

	for round := 0; round < 3; round++ {
		before := m.tried
		progress := false
		// 1. clients
		for i := len(cur.Clients) - 1; i >= 0 && len(cur.Clients) > 1; i-- {
			c := cur.clone()
			c.Clients = append(c.Clients[:i:i], c.Clients[i+1:]...)
			var d []int16
			for _, x := range cur.Decisions {
				switch {
				case int(x) == i:
				case int(x) > i:
					d = append(d, x-1)
				default:
					d = append(d, x)
				}
			}
			c.Decisions = d
			if m.ok(c) {
				cur, progress = c, true
			}
		}
		// 2. operations (from the end; chunks first)
		for ci := range cur.Clients {
			for chunk := len(cur.Clients[ci]) / 2; chunk >= 1; chunk /= 2 {
				for i := len(cur.Clients[ci]) - chunk; i >= 0; i -= chunk {
					if len(cur.Clients[ci]) <= 1 && len(cur.Clients) == 1 || m.spent() {
						break
					}
					if i+chunk > len(cur.Clients[ci]) {
						continue
					}
					c := cur.clone()
					c.Clients[ci] = append(c.Clients[ci][:i:i], c.Clients[ci][i+chunk:]...)
					if m.ok(c) {
						cur, progress = c, true
					}
				}
			}
		}
		// 3. simplify operations
		for ci := range cur.Clients {
			for oi := range cur.Clients[ci] {
				o := cur.Clients[ci][oi]
				if m.spent() {
					break
				}
				try := func(f func(*Op)) {
					if m.spent() {
						return
					}
					c := cur.clone()
					f(&c.Clients[ci][oi])
					if m.ok(c) {
						cur, progress = c, true
					}
				}
				if o.Fault != nil && cur.Engine != "wfault" {
					try(func(o *Op) { o.Fault = nil })
				}
				if o.Stack != "" && o.Stack != "W1" && cur.Engine != "sched" {
					try(func(o *Op) { o.Stack = "W1" })
				}
				if cur.Engine != "sched" {
					if o.Ctx {
						try(func(o *Op) { o.Ctx = false })
					}
					if o.Reader {
						try(func(o *Op) { o.Reader = false })
					}
					if o.Reuse {
						try(func(o *Op) { o.Reuse = false })
					}
				}
			}
		}
		// 3b. configuration: switch features off one at a time
		for _, f := range []func(*Config){
			func(c *Config) { c.GFM, c.TableAlign, c.LinkifyOpt = false, "", "" }, func(c *Config) { c.TableAlign = "" }, func(c *Config) { c.DefList = false },
			func(c *Config) { c.Footnote, c.FootnoteOpt = false, "" }, func(c *Config) { c.FootnoteOpt = "" }, func(c *Config) { c.Typographer, c.TypoSubs, c.TypoAll, c.TypoShort = false, false, false, false },
			func(c *Config) { c.TypoSubs, c.TypoAll, c.TypoShort = false, false, false }, func(c *Config) { c.TypoAll = false }, func(c *Config) { c.TypoShort = false }, func(c *Config) { c.ParserLists = "" }, func(c *Config) { c.ErrRenderer = false }, func(c *Config) { c.HeadingAttr = false },
			func(c *Config) { c.ExtHTMLOpts = false }, func(c *Config) { c.HTMLWriter = "" }, func(c *Config) { c.LinkifyOpt = "" }, func(c *Config) { c.CJK = "" },
			func(c *Config) { c.AutoID = false }, func(c *Config) { c.Attribute = false }, func(c *Config) { c.Unsafe = false },
			func(c *Config) { c.XHTML = false }, func(c *Config) { c.HardWraps = false }} {
			c := cur.clone()
			f(&c.Cfg)
			if c.Cfg == cur.Cfg || (cur.Property == "C15" && !c.Cfg.C15Applies()) {
				continue
			}
			if m.ok(c) {
				cur, progress = c, true
			}
		}
		// 4. documents: lines, then byte chunks
		used := map[int]bool{}
		for _, ops := range cur.Clients {
			for _, o := range ops {
				used[o.Doc] = true
			}
		}
		for di := range cur.Docs {
			if !used[di] {
				if len(cur.Docs[di]) > 0 {
					cur.Docs[di] = []byte{}
				}
				continue
			}
			shrinkDoc := func(split func([]byte) [][]byte) {
				parts := split(cur.Docs[di])
				for chunk := len(parts) / 2; chunk >= 1; chunk /= 2 {
					for i := len(parts) - chunk; i >= 0; i -= chunk {
						if i+chunk > len(parts) {
							continue
						}
						np := append(append([][]byte{}, parts[:i]...), parts[i+chunk:]...)
						c := cur.clone()
						c.Docs[di] = bytes.Join(np, nil)
						if m.ok(c) {
							cur, progress = c, true
							parts = np
						}
					}
				}
			}
			shrinkDoc(func(b []byte) [][]byte { return bytes.SplitAfter(b, []byte("\n")) })
			if len(cur.Docs[di]) <= 256 {
				shrinkDoc(func(b []byte) [][]byte {
					out := make([][]byte, len(b))
					for i := range b {
						out[i] = b[i : i+1]
					}
					return out
				})
			}
		}
		// 5. fault plans: smaller offsets / earlier calls
		for ci := range cur.Clients {
			for oi := range cur.Clients[ci] {
				f := cur.Clients[ci][oi].Fault
				if f == nil {
					continue
				}
				for _, k := range []int{0, f.K / 2, f.K - 1} {
					if k >= 0 && k < f.K {
						c := cur.clone()
						c.Clients[ci][oi].Fault.K = k
						if m.ok(c) {
							cur, progress = c, true
							f = cur.Clients[ci][oi].Fault
						}
					}
				}
				for _, j := range []int{0, f.J / 2, f.J - 1} {
					if j >= 0 && j < f.J {
						c := cur.clone()
						c.Clients[ci][oi].Fault.J = j
						if m.ok(c) {
							cur, progress = c, true
							f = cur.Clients[ci][oi].Fault
						}
					}
				}
			}
		}
		// 6. schedule: replace chunks of explicit decisions by the default rule
		if cur.Engine == "sched" && len(cur.Decisions) > 0 {
			for chunk := len(cur.Decisions); chunk >= 1; chunk /= 2 {
				for i := 0; i < len(cur.Decisions); i += chunk {
					end := i + chunk
					if end > len(cur.Decisions) {
						end = len(cur.Decisions)
					}
					all := true
					for _, x := range cur.Decisions[i:end] {
						if x != -1 {
							all = false
						}
					}
					if all {
						continue
					}
					c := cur.clone()
					for k := i; k < end; k++ {
						c.Decisions[k] = -1
					}
					if m.ok(c) {
						cur, progress = c, true
					}
				}
				if chunk == 1 {
					break
				}
			}
			for len(cur.Decisions) > 0 && cur.Decisions[len(cur.Decisions)-1] == -1 {
				cur.Decisions = cur.Decisions[:len(cur.Decisions)-1]
			}
		}
		if !progress || m.tried == before {
			break
		}
	}
	from.Tried = m.tried
	cur.MinFrom = from
	return cur
}

func countSwitches(d []int16) int {
	n := 0
	for i := 1; i < len(d); i++ {
		if d[i] != d[i-1] && d[i] >= 0 {
			n++
		}
	}
	return n
}

// replayCtl turns a worker loop into a history replay: runs from..until of the shard are
// executed exactly as the worker would, nothing is reported, and the violation of run
// `until` (if any) is handed to capture.
type replayCtl struct {
	from, until int
	capture     func(*RunSpec, *Violation)
}

// curProc describes the worker process we are in (nil outside a worker loop).
var curProc *ProcHistory

// executeHistory re-executes the run sequence recorded in spec.ProcHist.
func executeHistory(spec *RunSpec, st *Stats) *Violation {
	ph := spec.ProcHist
	var got *Violation
	ctl := &replayCtl{from: ph.FromRun, until: ph.UntilRun, capture: func(s *RunSpec, v *Violation) {
		if s.Run == ph.UntilRun && got == nil {
			got = v
			// show the failing run's own content in the caller's spec
			spec.Clients, spec.Docs, spec.Cfg = s.Clients, s.Docs, s.Cfg
		}
	}}
	tmp := NewStats()
	if ph.Pristine {
		// the failing pair is the spec's own content, not a run of the sequence
		cfg, doc := spec.Cfg, append([]byte{}, spec.Docs[0]...)
		ctl.capture = func(*RunSpec, *Violation) {}
		histWorker(&histParams{prop: spec.Property, verifSeed: spec.VerifSeed, shard: ph.Shard, of: ph.Of, tier: ph.Tier, runs: ph.Runs, ctl: ctl}, tmp)
		resp, err := pristineCompute(cfg, [][]byte{doc})
		if err != nil || resp.Errs[0] != "" {
			if st != nil {
				st.Trouble = append(st.Trouble, fmt.Sprintf("pristine reference failed: %v", err))
			}
			return nil
		}
		return pristineVerdict(spec.Property, cfg, doc, resp.Outs[0])
	}
	switch spec.Engine {
	case "hist":
		histWorker(&histParams{prop: spec.Property, verifSeed: spec.VerifSeed, shard: ph.Shard, of: ph.Of, tier: ph.Tier, runs: ph.Runs, ctl: ctl}, tmp)
	case "wfault":
		wfaultWorker(&wfaultParams{prop: spec.Property, verifSeed: spec.VerifSeed, shard: ph.Shard, of: ph.Of, tier: ph.Tier, ctl: ctl}, tmp)
	case "sched":
		schedWorker(&schedParams{prop: spec.Property, verifSeed: spec.VerifSeed, shard: ph.Shard, of: ph.Of, tier: ph.Tier, runs: ph.Runs, ctl: ctl}, tmp)
	default:
		panic("unknown engine " + spec.Engine)
	}
	if st != nil {
		st.Trouble = append(st.Trouble, tmp.Trouble...)
	}
	return got
}

// reportViolation minimises, makes sure the result reproduces in a FRESH process (the
// worker process may carry state left behind by earlier runs when the code under test keeps
// any at package level), writes the replay file and records the violation.
func reportViolation(spec *RunSpec, v *Violation, st *Stats, replayDir string, doMin bool) {
	// workers of the hist engine run with the automatic collector off; minimising (clones of
	// the run, one per candidate) needs it
	defer debug.SetGCPercent(debug.SetGCPercent(100))
	class := v.Class
	final := spec
	fv := v
	detail := ""
	verified := !doMin // without minimisation nothing was tried
	fresh := func(c *RunSpec) bool {
		cl, d := subprocessResult(c)
		if cl == class {
			detail = d
			return true
		}
		return false
	}
	if doMin {
		pred := func(c *RunSpec) bool {
			cv := executeSpec(c, nil)
			return cv != nil && cv.Class == class
		}
		if class == "race" || class == "deadlock" || class == "hang" {
			pred = fresh
		}
		budget := 400
		if class == "hang" {
			budget = 10 // every hanging candidate costs hangAfter
		}
		min := minimise(spec, class, pred, budget, 240*time.Second)
		ok := fresh(min)
		if !ok && class != "race" && class != "deadlock" && class != "hang" && fresh(spec) {
			// shrinking inside this process was misled by state earlier runs left behind:
			// shrink again with every candidate executed in a fresh process
			min = minimise(spec, class, fresh, 200, 120*time.Second)
			ok = fresh(min)
		}
		verified = ok
		if ok {
			final = min
			if class == "race" || class == "deadlock" || class == "hang" {
				fv = &Violation{Class: class, Client: v.Client, Op: v.Op, Detail: v.Detail, Race: v.Race}
			} else if mv := executeSpec(min.clone(), nil); mv != nil && mv.Class == class {
				fv = mv
			} else {
				fv = &Violation{Class: class, Client: -1, Op: -1, Detail: detail}
			}
		} else if curProc == nil || fresh(spec) {
			verified = curProc != nil // the un-minimised run reproduces in a fresh process
		} else {
			// the run alone does not reproduce in a fresh process: it needs what this process
			// executed before it. Record the shortest suffix of the worker's run sequence that
			// does reproduce there.
			h := spec.clone()
			h.Decisions = nil
			found := false
			for k := 1; k <= 1024 && !found; k *= 4 {
				from := spec.Run - k*curProc.Of
				if from < curProc.Shard {
					from = curProc.Shard
				}
				ph := *curProc
				ph.FromRun, ph.UntilRun, ph.Needed = from, spec.Run, true
				h.ProcHist = &ph
				found = fresh(h)
				if from == curProc.Shard {
					break
				}
			}
			if !found && h.ProcHist.FromRun != curProc.Shard {
				// state that accumulates over the whole life of the process (a table that is reset
				// after N insertions): everything this worker executed, from its first run
				ph := *curProc
				ph.FromRun, ph.UntilRun, ph.Needed = curProc.Shard, spec.Run, true
				h.ProcHist = &ph
				found = fresh(h)
			}
			if found {
				final = h
				verified = true
			} else {
				spec.Note = "observed in the worker process but reproduced neither alone nor with the worker's run sequence in a fresh process"
			}
		}
	}
	if detail != "" && (fv == v || fv.Detail == "") {
		fv = &Violation{Class: class, Client: fv.Client, Op: fv.Op, Want: fv.Want, Got: fv.Got, Detail: fv.Detail, Race: fv.Race}
	}
	p, err := writeSpec(final, replayDir, fv)
	if err != nil {
		st.Trouble = append(st.Trouble, "cannot write replay file: "+err.Error())
		return
	}
	sum := vioSummary(final, fv)
	if final.ProcHist != nil && final.ProcHist.Needed {
		sum += fmt.Sprintf(" | needs process history: runs %d..%d of shard %d/%d re-executed in a fresh process", final.ProcHist.FromRun, final.ProcHist.UntilRun, final.ProcHist.Shard, final.ProcHist.Of)
	}
	st.Violations = append(st.Violations, VioReport{Property: spec.Property, Class: class, Replay: p, Detail: sum, Unverified: !verified})
}

func vioSummary(spec *RunSpec, v *Violation) string {
	s := v.Detail
	if v.Want != nil || v.Got != nil {
		d := firstDiff(v.Want, v.Got)
		lo := d - 40
		if lo < 0 {
			lo = 0
		}
		w, g := v.Want, v.Got
		if lo < len(w) {
			w = w[lo:]
		} else {
			w = nil
		}
		if lo < len(g) {
			g = g[lo:]
		} else {
			g = nil
		}
		s += fmt.Sprintf(" | first diff at byte %d: want %s got %s", d, clip(w, 100), clip(g, 100))
	}
	if v.Client >= 0 && v.Client < len(spec.Clients) && v.Op >= 0 && v.Op < len(spec.Clients[v.Client]) {
		s += fmt.Sprintf(" | at client %d op %d %s cfg{%s}", v.Client, v.Op, spec.Clients[v.Client][v.Op], spec.Cfg.Key())
	}
	return s
}
