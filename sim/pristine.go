package main

import (
	"bytes"
	"encoding/json"
	"fmt"
	"os"
	"os/exec"
	"path/filepath"
	"sort"
	"strings"
)

// Pristine-process reference. The in-process reference model (a brand new instance per
// lookup) shares the OS process with everything the worker has executed before, so state that
// the code under test keeps at PACKAGE level (a sync.Pool that is not reset, parser singletons
// whose options are set by whichever instance initialises first) contaminates the reference
// exactly as it contaminates the instance under test, and equality with it proves nothing.
// A sample of (configuration, document) pairs is therefore re-computed in fresh OS processes
// that never build any other configuration, and compared with what this process produces
// now, after its whole history.

type pristineReq struct {
	Cfg  Config   `json:"config"`
	Docs [][]byte `json:"docs"`
}

type pristineResp struct {
	Outs [][]byte `json:"outs"`
	Errs []string `json:"errs"`
}

func cmdPristine(args []string) {
	if len(args) < 1 {
		os.Exit(2)
	}
	b, err := os.ReadFile(args[0])
	if err != nil {
		fmt.Fprintln(os.Stderr, err)
		os.Exit(2)
	}
	var req pristineReq
	if err := json.Unmarshal(b, &req); err != nil {
		fmt.Fprintln(os.Stderr, err)
		os.Exit(2)
	}
	var resp pristineResp
	for _, d := range req.Docs {
		src := append(make([]byte, 0, len(d)+16), d...)
		out, err, pan := refCompute(req.Cfg, src)
		e := ""
		if err != nil {
			e = "error: " + err.Error()
		}
		if pan != "" {
			e = "panic: " + firstLine(pan)
		}
		resp.Outs = append(resp.Outs, out)
		resp.Errs = append(resp.Errs, e)
	}
	ob, _ := json.Marshal(&resp)
	os.Stdout.Write(ob)
}

// pristineCompute converts docs under cfg in a fresh OS process, each on a new instance.
func pristineCompute(cfg Config, docs [][]byte) (*pristineResp, error) {
	dir, err := os.MkdirTemp("", "goldsim-pristine")
	if err != nil {
		return nil, err
	}
	defer os.RemoveAll(dir)
	b, _ := json.Marshal(&pristineReq{Cfg: cfg, Docs: docs})
	f := filepath.Join(dir, "req.json")
	if err := os.WriteFile(f, b, 0o644); err != nil {
		return nil, err
	}
	cmd := exec.Command(os.Args[0], "pristine", f)
	cmd.Env = append(os.Environ(), "GORACE=halt_on_error=0 atexit_sleep_ms=0")
	out, err := cmd.Output()
	if err != nil {
		return nil, fmt.Errorf("pristine subprocess: %v", err)
	}
	var resp pristineResp
	if err := json.Unmarshal(out, &resp); err != nil {
		return nil, err
	}
	if len(resp.Outs) != len(docs) {
		return nil, fmt.Errorf("pristine subprocess returned %d results for %d documents", len(resp.Outs), len(docs))
	}
	return &resp, nil
}

// pristineVerdict: does a fresh instance in THIS process (with all its history) convert doc
// to the same bytes as a fresh instance in a fresh process? For C15 only heading ids count.
func pristineVerdict(prop string, cfg Config, doc []byte, want []byte) *Violation {
	src := append(make([]byte, 0, len(doc)+16), doc...)
	got, err, pan := refCompute(cfg, src)
	if err != nil || pan != "" {
		return nil
	}
	if bytes.Equal(got, want) {
		return nil
	}
	if prop == "C15" {
		if !cfg.C15Applies() {
			return nil
		}
		a, _ := headingIDs(got)
		b, _ := headingIDs(want)
		if sameIDs(a, b) {
			return nil
		}
		return &Violation{Class: "id-depends-on-process-history", Client: 0, Op: 0, Want: want, Got: got,
			Detail: fmt.Sprintf("heading ids %q from a new instance of %s in a process with this history, %q from a new instance in a fresh process", a, cfg, b)}
	}
	return &Violation{Class: "depends-on-process-history", Client: 0, Op: 0, Want: want, Got: got,
		Detail: fmt.Sprintf("a new instance of %s converts the same source to different bytes in a process that has executed this history than in a fresh process (state kept at package level)", cfg)}
}

// pristineSample picks (deterministically, from the reference model's memo) up to maxCfg
// configurations with up to perCfg documents each, checks them, and reports violations.
func pristineSample(p *histParams, st *Stats, lastRun int, maxCfg, perCfg int) {
	type grp struct {
		cfg  Config
		docs []string
	}
	byCfg := map[string]*grp{}
	var keys []string
	for k, e := range refModel.m {
		if e.out == nil {
			continue
		}
		g := byCfg[k.cfg]
		if g == nil {
			g = &grp{cfg: e.cfg}
			byCfg[k.cfg] = g
			keys = append(keys, k.cfg)
		}
		g.docs = append(g.docs, k.doc)
	}
	sort.Strings(keys)
	r := NewRng(runSeed(p.verifSeed, "pristine-"+p.prop, p.shard))
	// deterministic shuffle of configurations
	for i := len(keys) - 1; i > 0; i-- {
		j := r.Intn(i + 1)
		keys[i], keys[j] = keys[j], keys[i]
	}
	if len(keys) > maxCfg {
		keys = keys[:maxCfg]
	}
	for _, k := range keys {
		g := byCfg[k]
		sort.Strings(g.docs)
		for i := len(g.docs) - 1; i > 0; i-- {
			j := r.Intn(i + 1)
			g.docs[i], g.docs[j] = g.docs[j], g.docs[i]
		}
		if len(g.docs) > perCfg {
			// half of the places go to documents with characters outside the Basic Multilingual
			// Plane, if there are any: state at package level that confuses rare characters with
			// common ones (tables indexed by a truncated code point) only shows on those, and only
			// against a process that has not seen the common ones
			sel, rest := []string{}, []string{}
			for _, d := range g.docs {
				if len(sel) < perCfg/2 && strings.IndexByte(d, 0xf0) >= 0 {
					sel = append(sel, d)
				} else {
					rest = append(rest, d)
				}
			}
			g.docs = append(sel, rest...)[:perCfg]
		}
		docs := make([][]byte, len(g.docs))
		for i, d := range g.docs {
			docs[i] = []byte(d)
		}
		resp, err := pristineCompute(g.cfg, docs)
		if err != nil {
			st.Trouble = append(st.Trouble, err.Error())
			return
		}
		st.Inc("pristine.processes")
		for i, d := range docs {
			if resp.Errs[i] != "" {
				continue
			}
			st.Inc("pristine.pairs_checked")
			v := pristineVerdict(p.prop, g.cfg, d, resp.Outs[i])
			if v == nil {
				// also: what this process produced for the pair earlier in its life (the memo)
				if e := refModel.m[refKey{k, string(d)}]; e != nil && e.out != nil && !bytes.Equal(e.out, resp.Outs[i]) {
					if p.prop != "C15" {
						v = &Violation{Class: "depends-on-process-history", Client: 0, Op: 0, Want: resp.Outs[i], Got: e.out,
							Detail: fmt.Sprintf("a new instance of %s converted the same source to different bytes earlier in this process than a new instance does in a fresh process", g.cfg)}
					}
				}
			}
			if v == nil {
				continue
			}
			st.Inc("violations_seen")
			if len(st.Violations) >= p.maxVio {
				continue
			}
			spec := &RunSpec{Property: p.prop, Engine: "hist", VerifSeed: p.verifSeed, Run: lastRun, RunSeed: "pristine-sample",
				Cfg: g.cfg, Docs: [][]byte{d}, Clients: [][]Op{{{Kind: "Convert", Doc: 0, Stack: "W1"}}}}
			reportPristine(spec, v, st, p)
		}
	}
}

// reportPristine writes the replay file for a process-history violation: the shortest
// suffix of the worker's run sequence after which the pair still differs from the pristine
// result when everything is re-executed in a fresh process.
func reportPristine(spec *RunSpec, v *Violation, st *Stats, p *histParams) {
	final := spec
	found := false
	if curProc != nil {
		for k := 0; k <= 4096 && !found; k = k*4 + 1 {
			from := spec.Run - k*curProc.Of
			if from < curProc.Shard {
				from = curProc.Shard
			}
			h := spec.clone()
			ph := *curProc
			ph.FromRun, ph.UntilRun, ph.Needed, ph.Pristine = from, spec.Run, true, true
			h.ProcHist = &ph
			if cl, _ := subprocessResult(h); cl == v.Class {
				final, found = h, true
			}
			if from == curProc.Shard {
				break
			}
		}
		if !found {
			// last resort: the worker's whole run sequence (state that is reset every so many
			// entries, or set by whoever came first, depends on all of it)
			h := spec.clone()
			ph := *curProc
			ph.FromRun, ph.UntilRun, ph.Needed, ph.Pristine = curProc.Shard, spec.Run, true, true
			h.ProcHist = &ph
			if cl, _ := subprocessResult(h); cl == v.Class {
				final, found = h, true
			}
		}
	}
	if !found {
		spec.Note = "observed at the end of the worker process; the worker's run sequence re-executed in a fresh process did not reproduce it"
	}
	path, err := writeSpec(final, p.replayDir, v)
	if err != nil {
		st.Trouble = append(st.Trouble, "cannot write replay file: "+err.Error())
		return
	}
	sum := vioSummary(final, v)
	if final.ProcHist != nil {
		sum += fmt.Sprintf(" | process history: runs %d..%d of shard %d/%d, then the pair is compared with a fresh process", final.ProcHist.FromRun, final.ProcHist.UntilRun, final.ProcHist.Shard, final.ProcHist.Of)
	}
	st.Violations = append(st.Violations, VioReport{Property: spec.Property, Class: v.Class, Replay: path, Detail: sum})
}
