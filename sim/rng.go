package main

// SplitMix64. The only source of randomness in the simulator. No math/rand (shared
// state, and its accesses would be visible to the race detector).

type Rng struct {
	s      uint64
	forced bool // sub-stream of the gate named by forceGate: its first Chance is true
}

// forceGate names one generator gate (a Split label followed by Chance) that is taken for
// sure while it is set: a cold-start herd puts every worker's document behind the same gate.
// Set and cleared by the spec generator only, which runs on one goroutine.
var forceGate string

func mix64(z uint64) uint64 {
	z = (z ^ (z >> 30)) * 0xbf58476d1ce4e5b9
	z = (z ^ (z >> 27)) * 0x94d049bb133111eb
	return z ^ (z >> 31)
}

func NewRng(seed uint64) *Rng { return &Rng{s: seed} }

func (r *Rng) Next() uint64 {
	r.s += 0x9e3779b97f4a7c15
	return mix64(r.s)
}

// Intn returns a value in [0,n). n<=0 gives 0.
func (r *Rng) Intn(n int) int {
	if n <= 1 {
		return 0
	}
	return int(r.Next() % uint64(n))
}

// Range returns a value in [lo,hi].
func (r *Rng) Range(lo, hi int) int {
	if hi <= lo {
		return lo
	}
	return lo + r.Intn(hi-lo+1)
}

// Chance is true with probability num/den.
func (r *Rng) Chance(num, den int) bool {
	v := r.Intn(den) < num // the draw is made either way: the stream after the gate is the same
	if r.forced {
		r.forced = false
		return true
	}
	return v
}

func hashStr(s string) uint64 {
	h := uint64(0xcbf29ce484222325)
	for i := 0; i < len(s); i++ {
		h ^= uint64(s[i])
		h *= 0x100000001b3
	}
	return mix64(h)
}

func hashBytes(h uint64, b []byte) uint64 {
	for _, c := range b {
		h ^= uint64(c)
		h *= 0x100000001b3
	}
	return h
}

func hashU64(h uint64, v uint64) uint64 {
	for i := 0; i < 8; i++ {
		h ^= (v >> (8 * uint(i))) & 0xff
		h *= 0x100000001b3
	}
	return h
}

// Split derives an independent sub-stream; shrinking one dimension of a run does not
// reshuffle the others.
func (r *Rng) Split(label string) *Rng {
	return &Rng{s: mix64(r.s ^ hashStr(label)), forced: forceGate != "" && label == forceGate}
}

// runSeed: one integer (VERIF_SEED) + engine + run index decide a run.
func runSeed(verifSeed uint64, engine string, run int) uint64 {
	return mix64(mix64(verifSeed^0x5851f42d4c957f2d) ^ hashStr(engine) ^ mix64(uint64(run)+0x1234567))
}

func pick[T any](r *Rng, xs []T) T { return xs[r.Intn(len(xs))] }
