package main

import (
	"encoding/binary"
	"encoding/json"
	"os"
	"sort"
)

// Stats is what one worker process reports to the driver.
type Stats struct {
	Counters   map[string]int64  `json:"counters"`
	Samples    []json.RawMessage `json:"samples"`
	Violations []VioReport       `json:"violations"`
	Trouble    []string          `json:"trouble"` // harness problems (exit 2), never violations
	distinct   map[uint64]struct{}
	maxSamples int
}

type VioReport struct {
	Property string `json:"property"`
	Class    string `json:"class"`
	Replay   string `json:"replay"`
	Detail   string `json:"detail"`
	Known    string `json:"known,omitempty"`
	// Unverified: the replay file did not reproduce in a fresh process when it was written
	// (the violation was observed in the worker process; it depends on something the simulator
	// does not own, e.g. which pooled object the Go runtime hands out)
	Unverified bool `json:"unverified,omitempty"`
}

func NewStats() *Stats {
	return &Stats{Counters: map[string]int64{}, distinct: map[uint64]struct{}{}, maxSamples: 3}
}

func (s *Stats) Inc(k string)          { s.Counters[k]++ }
func (s *Stats) Add(k string, n int64) { s.Counters[k] += n }
func (s *Stats) Max(k string, n int64) {
	if s.Counters[k] < n {
		s.Counters[k] = n
	}
}
func (s *Stats) Distinct(h uint64) { s.distinct[h] = struct{}{} }
func (s *Stats) Sample(v interface{}) {
	if len(s.Samples) >= s.maxSamples {
		return
	}
	b, err := json.Marshal(v)
	if err == nil {
		s.Samples = append(s.Samples, b)
	}
}

func (s *Stats) Write(path string) error {
	hs := make([]uint64, 0, len(s.distinct))
	for h := range s.distinct {
		hs = append(hs, h)
	}
	sort.Slice(hs, func(i, j int) bool { return hs[i] < hs[j] })
	buf := make([]byte, 8*len(hs))
	for i, h := range hs {
		binary.LittleEndian.PutUint64(buf[8*i:], h)
	}
	if err := os.WriteFile(path+".distinct", buf, 0o644); err != nil {
		return err
	}
	b, err := json.Marshal(s)
	if err != nil {
		return err
	}
	return os.WriteFile(path, b, 0o644)
}

func readStats(path string) (*Stats, error) {
	b, err := os.ReadFile(path)
	if err != nil {
		return nil, err
	}
	s := NewStats()
	if err := json.Unmarshal(b, s); err != nil {
		return nil, err
	}
	d, err := os.ReadFile(path + ".distinct")
	if err != nil {
		return nil, err
	}
	for i := 0; i+8 <= len(d); i += 8 {
		s.distinct[binary.LittleEndian.Uint64(d[i:])] = struct{}{}
	}
	return s, nil
}

func (s *Stats) Merge(o *Stats) {
	for k, v := range o.Counters {
		if len(k) > 4 && k[:4] == "max." {
			s.Max(k, v)
		} else {
			s.Counters[k] += v
		}
	}
	for h := range o.distinct {
		s.distinct[h] = struct{}{}
	}
	for _, x := range o.Samples {
		if len(s.Samples) < 6 {
			s.Samples = append(s.Samples, x)
		}
	}
	s.Violations = append(s.Violations, o.Violations...)
	s.Trouble = append(s.Trouble, o.Trouble...)
}
