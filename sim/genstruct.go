package main

import (
	"fmt"
	"strings"
)

// genStruct: a compositional document generator. Where genFamily instantiates one template
// per construct family, this one nests block containers (quotes, bullet and ordered lists,
// footnote definitions, definition descriptions) to a seeded depth and fills leaves with a
// seeded mix of every inline construct, so that constructs meet in combinations no template
// and no corpus example has (a table in a list in a quote, a Setext heading in a footnote, a
// code span crossing a quote prefix, ...).

func genInline(r *Rng, n int) string {
	var b strings.Builder
	for i := 0; i < n; i++ {
		if i > 0 {
			b.WriteString(pick(r, []string{" ", " ", " ", "\n", "  \n", "\\\n", ""}))
		}
		w := word(r)
		switch r.Intn(24) {
		case 0:
			fmt.Fprintf(&b, "*%s*", w)
		case 1:
			fmt.Fprintf(&b, "**%s %s**", w, word(r))
		case 2:
			fmt.Fprintf(&b, "_%s *%s*_", w, word(r))
		case 3:
			fmt.Fprintf(&b, "`%s`", w)
		case 4:
			if r.Split("padded-span").Chance(1, 3) {
				// padded with two or more spaces / a line ending on both sides (one is stripped)
				fmt.Fprintf(&b, "`%s%s%s`", pick(r, []string{"  ", "   ", " \n"}), w, pick(r, []string{"  ", "   ", "\n "}))
				break
			}
			fmt.Fprintf(&b, "`` %s ` %s ``", w, word(r))
		case 5:
			fmt.Fprintf(&b, "[%s](/%s %s)", w, pick(r, tricky), genTitle(r))
		case 6:
			fmt.Fprintf(&b, "[%s][%s]", w, pick(r, []string{"foo", "bar", "Foo", "a b", "r1"}))
		case 7:
			fmt.Fprintf(&b, "[%s]", pick(r, []string{"foo", "bar", "FOO", "a  b", "r1", "^x"}))
		case 8:
			fmt.Fprintf(&b, "![%s *alt*](/img/%s.png \"%s\")", w, word(r), word(r))
		case 9:
			fmt.Fprintf(&b, "<http://%s.example/%s?a=1&b=2>", pick(r, words[:8]), w)
		case 10:
			fmt.Fprintf(&b, "<span class=\"%s\">%s</span>", w, word(r))
		case 11:
			b.WriteString(pick(r, []string{"&amp;", "&copy;", "&#35;", "&#x1F600;", "&nosuch;", "&lt;", "&quot;", "&Dcaron;"}))
		case 12:
			b.WriteString(pick(r, []string{"\\*", "\\[", "\\`", "\\\\", "\\<", "\\&amp;", "\\_"}) + w)
		case 13:
			fmt.Fprintf(&b, "~~%s~~", w)
		case 14:
			fmt.Fprintf(&b, "%s[^%s]", w, pick(r, []string{"1", "note", "f"}))
		case 15:
			fmt.Fprintf(&b, "\"%s\" '%s' -- --- ...", w, word(r))
		case 16:
			fmt.Fprintf(&b, "www.%s.com http://%s.org/p?q=%s me@%s.com", pick(r, words[:8]), pick(r, words[:8]), w, pick(r, words[:8]))
		case 17:
			b.WriteString(pick(r, []string{"日本語", "中文。", "한국어", "ａｂｃ", "こんにちは\n世界"}))
		case 18:
			fmt.Fprintf(&b, "*%s **%s* %s**", w, word(r), word(r)) // overlapping delimiters
		case 19:
			fmt.Fprintf(&b, "[%s [%s](/in) %s](/out)", w, word(r), word(r)) // link in link
		case 20:
			fmt.Fprintf(&b, "<!-- %s --> <?%s?> <![CDATA[%s]]>", w, word(r), word(r))
		default:
			b.WriteString(w)
		}
	}
	return b.String()
}

// genBlocks returns the lines of a sequence of blocks at the given nesting depth.
func genBlocks(r *Rng, depth, n int) []string {
	var out []string
	blank := func() {
		if len(out) > 0 && out[len(out)-1] != "" {
			out = append(out, "")
		}
	}
	nest := func(first, rest string, inner []string) {
		for i, l := range inner {
			switch {
			case i == 0:
				out = append(out, first+l)
			case l == "" && strings.TrimSpace(rest) == "":
				out = append(out, "")
			default:
				out = append(out, strings.TrimRight(rest+l, " "))
			}
		}
	}
	for i := 0; i < n; i++ {
		k := r.Intn(20)
		if depth >= 3 && k >= 12 {
			k = r.Intn(12)
		}
		switch k {
		case 0, 1, 2:
			blank()
			out = append(out, strings.Split(genInline(r, r.Range(1, 7)), "\n")...)
		case 3:
			blank()
			out = append(out, strings.Repeat("#", r.Range(1, 6))+" "+strings.ReplaceAll(genInline(r, r.Range(1, 3)), "\n", " ")+pick(r, []string{"", " #", " {#i" + word(r) + "}"}))
		case 4:
			blank()
			out = append(out, strings.ReplaceAll(genInline(r, r.Range(1, 3)), "\n", " "), pick(r, []string{"===", "---", "=", "--"}))
		case 5:
			blank()
			f := pick(r, []string{"```", "~~~", "````"})
			out = append(out, f+pick(r, []string{"", "go", " rust x=1", "{.c}"}))
			for j := r.Range(0, 3); j > 0; j-- {
				out = append(out, pick(r, []string{"", "  ", "\t"})+word(r)+pick(r, []string{"", " <&>", " ```", " *x*"}))
			}
			if r.Chance(5, 6) {
				out = append(out, f)
			}
		case 6:
			blank()
			for j := r.Range(1, 3); j > 0; j-- {
				out = append(out, "    "+word(r)+" <b>&amp;</b>")
			}
		case 7:
			blank()
			out = append(out, pick(r, []string{"***", "---", "___", "* * *"}))
		case 8:
			blank()
			out = append(out, pick(r, [][]string{{"<div>", "*not em*", "</div>"}, {"<!-- c", "-->"}, {"<script>", "x < y", "</script>"}, {"<p>", "", "*em*", "", "</p>"}, {"<?php", "?>"}})...)
		case 9:
			blank()
			cols := r.Range(1, 4)
			row := func(f func() string) string {
				s := "|"
				for c := 0; c < cols; c++ {
					s += " " + f() + " |"
				}
				return s
			}
			out = append(out, row(func() string { return word(r) }), row(func() string { return pick(r, []string{":--", ":-:", "--:", "---"}) }))
			for j := r.Range(0, 3); j > 0; j-- {
				out = append(out, row(func() string { return strings.ReplaceAll(strings.ReplaceAll(genInline(r, 1), "\n", " "), "|", "\\|") }))
			}
		case 10:
			blank()
			out = append(out, fmt.Sprintf("[%s]: /ref/%s %s", pick(r, []string{"foo", "bar", "a b", "r1"}), word(r), pick(r, []string{"", "\"t\"", "'t & u'"})))
		case 11:
			blank()
			out = append(out, word(r), ": "+strings.ReplaceAll(genInline(r, 2), "\n", " "))
		case 12, 13: // block quote
			blank()
			nest("> ", "> ", genBlocks(r, depth+1, r.Range(1, 3)))
			if r.Chance(1, 4) {
				out = append(out, "lazy "+word(r))
			}
		case 14, 15: // bullet list
			blank()
			m := pick(r, []string{"- ", "* ", "+ ", "-   "})
			for j := r.Range(1, 3); j > 0; j-- {
				if r.Chance(1, 6) {
					nest(m, strings.Repeat(" ", len(m)), append([]string{pick(r, []string{"[ ] ", "[x] "}) + word(r)}, genBlocks(r, depth+1, r.Intn(2))...))
				} else {
					nest(m, strings.Repeat(" ", len(m)), genBlocks(r, depth+1, r.Range(1, 2)))
				}
				if r.Chance(1, 3) {
					out = append(out, "")
				}
			}
		case 16, 17: // ordered list
			blank()
			start := pick(r, []int{1, 1, 2, 7, 10, 0})
			d := pick(r, []string{".", ")"})
			for j := 0; j < r.Range(1, 3); j++ {
				m := fmt.Sprintf("%d%s ", start+j, d)
				nest(m, strings.Repeat(" ", len(m)), genBlocks(r, depth+1, r.Range(1, 2)))
			}
		case 18: // footnote definition
			blank()
			nest(fmt.Sprintf("[^%s]: ", pick(r, []string{"1", "note", "f"})), "    ", genBlocks(r, depth+1, r.Range(1, 2)))
		default: // definition list with block content
			blank()
			out = append(out, word(r))
			nest(": ", "  ", genBlocks(r, depth+1, r.Range(1, 2)))
		}
	}
	return out
}

func genStruct(r *Rng) []byte {
	lines := genBlocks(r, 0, r.Range(1, 6))
	s := strings.Join(lines, "\n")
	if r.Chance(9, 10) {
		s += "\n"
	}
	return []byte(s)
}
