package main

import (
	"flag"
	"fmt"
	"os"
	"os/exec"
	"path/filepath"
	"runtime/debug"
	"strconv"
	"strings"
	"syscall"
	"time"
)

// goldsim — deterministic simulation harness for goldmark.
//
//	goldsim worker   -engine wfault|hist|sched ...   one worker process (a shard of a batch)
//	goldsim drive    -prop C06 -tier quick ...       fan out workers, merge, write evidence
//	goldsim replay   <file>                          execute a replay file
//	goldsim execspec <file>                          execute a spec, print "CLASS <class>"
//	goldsim selftest determinism|transparent ...
//
// Exit codes: 0 property held, 1 violation, 2 harness/build/watchdog trouble.

func envSeed() uint64 {
	s := os.Getenv("VERIF_SEED")
	if s == "" {
		return 1
	}
	var v uint64
	if _, err := fmt.Sscanf(s, "%d", &v); err != nil {
		fmt.Fprintf(os.Stderr, "bad VERIF_SEED %q\n", s)
		os.Exit(2)
	}
	return v
}

func main() {
	if len(os.Args) < 2 {
		fmt.Fprintln(os.Stderr, "usage: goldsim worker|drive|replay|execspec|selftest ...")
		os.Exit(2)
	}
	switch os.Args[1] {
	case "worker":
		cmdWorker(os.Args[2:])
	case "drive":
		cmdDrive(os.Args[2:])
	case "replay":
		cmdReplay(os.Args[2:])
	case "execspec":
		cmdExecSpec(os.Args[2:])
	case "selftest":
		cmdSelftest(os.Args[2:])
	case "pristine":
		cmdPristine(os.Args[2:])
	case "timegen": // goldsim timegen <n>: conversion time of n genLong documents (inspection)
		var n int
		fmt.Sscan(os.Args[2], &n)
		allOn := Config{GFM: true, DefList: true, Footnote: true, Typographer: true, CJK: "default", AutoID: true, Attribute: true}
		for i := 0; i < n; i++ {
			d := genLong(NewRng(uint64(i)))
			t0 := time.Now()
			out, _, _ := refCompute(allOn, d)
			el := time.Since(t0)
			if el > 5*time.Millisecond {
				fmt.Printf("seed %d: %d bytes in, %d out, %v: %q\n", i, len(d), len(out), el, clipStr(d, 50))
			}
		}
	case "gendoc": // goldsim gendoc <generator> <seed>: print one generated document (for inspection)
		if len(os.Args) < 4 {
			os.Exit(2)
		}
		var sd uint64
		fmt.Sscan(os.Args[3], &sd)
		r := NewRng(sd)
		switch os.Args[2] {
		case "struct":
			os.Stdout.Write(genStruct(r))
		case "longline":
			os.Stdout.Write(genLongLine(r))
		case "heading":
			os.Stdout.Write(genHeadingDoc(r))
		default:
			os.Stdout.Write(genFamily(r, os.Args[2]))
		}
	default:
		fmt.Fprintln(os.Stderr, "unknown command", os.Args[1])
		os.Exit(2)
	}
}

// stopAtFirst: a worker ends its loop after reporting one violation (used by the sensitivity
// self-test and by seed evaluation, where only "is it caught, and does the replay reproduce"
// matters; never by the registered checks, whose evidence must describe a complete batch).
var stopAtFirst bool

func cmdWorker(args []string) {
	// A soft memory limit for every worker process: the Go runtime collects when the heap
	// approaches it even where the automatic collector is switched off (hist workers), so no
	// path of the harness - minimising a run of tens of thousands of operations, say - can
	// take the machine down. 16 workers x 3 GB stays well inside the sandbox's memory.
	debug.SetMemoryLimit(3 << 30)
	fs := flag.NewFlagSet("worker", flag.ExitOnError)
	engine := fs.String("engine", "", "")
	prop := fs.String("prop", "", "")
	seed := fs.Uint64("seed", 1, "")
	tier := fs.String("tier", "quick", "")
	shard := fs.Int("shard", 0, "")
	of := fs.Int("of", 1, "")
	runs := fs.Int("runs", 100, "")
	cold := fs.Int("cold", -1, "cold-start run index (sched)")
	outp := fs.String("out", "", "")
	replayDir := fs.String("replay-dir", "replays", "")
	noMin := fs.Bool("no-minimise", false, "")
	first := fs.Bool("first", false, "stop after the first violation")
	fs.Parse(args)
	stopAtFirst = *first
	st := NewStats()
	fmt.Fprintf(os.Stderr, "goldsim worker engine=%s prop=%s VERIF_SEED=%d tier=%s shard=%d/%d\n", *engine, *prop, *seed, *tier, *shard, *of)
	switch *engine {
	case "wfault":
		wfaultWorker(&wfaultParams{prop: *prop, verifSeed: *seed, shard: *shard, of: *of, tier: *tier, replayDir: *replayDir, maxVio: 3, noMinimise: *noMin}, st)
	case "hist":
		histWorker(&histParams{prop: *prop, verifSeed: *seed, shard: *shard, of: *of, tier: *tier, runs: *runs, replayDir: *replayDir, maxVio: 3, noMinimise: *noMin}, st)
	case "sched":
		schedWorker(&schedParams{prop: *prop, verifSeed: *seed, shard: *shard, of: *of, tier: *tier, runs: *runs, cold: *cold >= 0, coldRun: *cold, replayDir: *replayDir, maxVio: 2, noMinimise: *noMin}, st)
	default:
		fmt.Fprintln(os.Stderr, "unknown engine", *engine)
		os.Exit(2)
	}
	if *outp != "" {
		if err := st.Write(*outp); err != nil {
			fmt.Fprintln(os.Stderr, "cannot write stats:", err)
			os.Exit(2)
		}
	}
	if len(st.Trouble) > 0 {
		for _, t := range st.Trouble {
			fmt.Fprintln(os.Stderr, "TROUBLE:", t)
		}
		os.Exit(2)
	}
	if len(st.Violations) > 0 {
		os.Exit(1)
	}
}

// subprocessClass executes a spec in a fresh process of this same binary and returns the
// violation class it reports ("" if none). Needed for race reports (the race runtime
// de-duplicates identical reports within a process) and for deadlocks (leaked goroutines).
func subprocessClass(spec *RunSpec) string {
	c, _ := subprocessResult(spec)
	return c
}

func subprocessResult(spec *RunSpec) (class, detail string) {
	dir, err := os.MkdirTemp("", "goldsim-cand")
	if err != nil {
		return "", ""
	}
	defer os.RemoveAll(dir)
	s := *spec
	p, err := writeSpec(&s, dir, &Violation{Class: "candidate", Client: -1, Op: -1})
	if err != nil {
		return "", ""
	}
	cmd := exec.Command(os.Args[0], "execspec", p)
	cmd.Env = append(os.Environ(), "GORACE=log_path="+filepath.Join(dir, "race")+" halt_on_error=0 atexit_sleep_ms=0 exitcode=0")
	out, _ := cmd.Output()
	for _, l := range strings.Split(string(out), "\n") {
		if strings.HasPrefix(l, "CLASS ") {
			class = strings.TrimSpace(strings.TrimPrefix(l, "CLASS "))
		}
		if strings.HasPrefix(l, "DETAIL ") {
			detail = strings.TrimPrefix(l, "DETAIL ")
		}
	}
	return class, detail
}

func cmdExecSpec(args []string) {
	if len(args) < 1 {
		os.Exit(2)
	}
	spec, err := loadSpec(args[0])
	if err != nil {
		fmt.Fprintln(os.Stderr, err)
		os.Exit(2)
	}
	reexecWithGoMaxProcs(spec)
	st := NewStats()
	v := executeSpec(spec, st)
	if len(st.Trouble) > 0 {
		fmt.Println("TROUBLE", st.Trouble[0])
		os.Exit(2)
	}
	if v == nil {
		fmt.Println("CLASS ")
		return
	}
	fmt.Println("CLASS", v.Class)
	fmt.Println("DETAIL", vioSummary(spec, v))
	if v.Race != "" {
		fmt.Println(v.Race)
	}
}

func cmdReplay(args []string) {
	if len(args) < 1 {
		fmt.Fprintln(os.Stderr, "usage: goldsim replay <file>")
		os.Exit(2)
	}
	spec, err := loadSpec(args[0])
	if err != nil {
		fmt.Fprintln(os.Stderr, "cannot load replay file:", err)
		os.Exit(2)
	}
	reexecWithGoMaxProcs(spec)
	want := spec.Class
	wantEv := spec.EventsSha
	fmt.Printf("replaying %s: property=%s engine=%s class=%s verif_seed=%d run=%d run_seed=%s\n", args[0], spec.Property, spec.Engine, want, spec.VerifSeed, spec.Run, spec.RunSeed)
	st := NewStats()
	var v *Violation
	if spec.Engine == "sched" && spec.Cold {
		// cold-start runs replay in this fresh process as its very first use of goldmark
		if err := onceSelfTest(); err != nil {
			fmt.Fprintln(os.Stderr, "TROUBLE:", err)
			os.Exit(2)
		}
	}
	v = executeSpec(spec, st)
	for _, t := range st.Trouble {
		fmt.Fprintln(os.Stderr, "TROUBLE:", t)
	}
	if v == nil {
		if len(st.Trouble) > 0 {
			os.Exit(2)
		}
		fmt.Println("no violation: the tree no longer violates this replay")
		return
	}
	if spec.Engine == "sched" && wantEv != "" {
		if spec.EventsSha == wantEv {
			fmt.Println("event log identical to the recorded one (events_sha", wantEv+")")
		} else {
			fmt.Println("note: event log differs from the recorded one (code changed since the file was written?)")
		}
	}
	fmt.Printf("class=%s (recorded %s): %s\n", v.Class, want, vioSummary(spec, v))
	if v.Race != "" {
		fmt.Println(v.Race)
	}
	fmt.Printf("VIOLATION property=%s replay=%s\n", spec.Property, args[0])
	os.Exit(1)
}

// reexecWithGoMaxProcs: a replay runs with the GOMAXPROCS of the process that found the
// violation FROM THE START of the process, not only from executeSpec on: what the code under
// test sizes by runtime.GOMAXPROCS at package initialisation (the package-level default
// instance, say) is otherwise sized differently in the replay. The process replaces itself
// once, with GOMAXPROCS in its environment.
func reexecWithGoMaxProcs(spec *RunSpec) {
	if spec.GoMaxProcs <= 0 {
		return
	}
	want := strconv.Itoa(spec.GoMaxProcs)
	if os.Getenv("GOMAXPROCS") == want {
		return
	}
	self, err := os.Executable()
	if err != nil {
		return
	}
	env := append([]string{}, os.Environ()...)
	env = append(env, "GOMAXPROCS="+want)
	_ = syscall.Exec(self, os.Args, env) // on failure: carry on in this process
}
